//! libFuzzer target: bytes -> lossy UTF-8 -> every property that is decided on a single source
//! text (C01-C11, C17, C18, C19). The semantic oracles run inside the target; it aborts only for
//! a violation that known_findings.json does not list. VERIF_FUZZ_PROPS restricts the properties.
#![no_main]
use libfuzzer_sys::fuzz_target;
use sasverif::fuzz::{run_props, text_props};

fuzz_target!(|data: &[u8]| {
    let s = String::from_utf8_lossy(data).to_string();
    run_props(text_props(), &sasverif::core::Case::text("libfuzzer", s), data);
});
