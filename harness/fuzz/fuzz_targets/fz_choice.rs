//! libFuzzer target: the fuzzer input *is* the choice stream of the property's own generator
//! (construct grammar for C12-C14, pairs for C15/C16, numeric and literal spellings for C07/C08,
//! the shared generator mix for the rest). VERIF_FUZZ_PROPS selects the properties.
#![no_main]
use libfuzzer_sys::fuzz_target;
use sasverif::fuzz::{choice_props, run_generated};

fuzz_target!(|data: &[u8]| {
    run_generated(choice_props(), data);
});
