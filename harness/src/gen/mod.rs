//! Generators. All of them are functions of a choice stream (`Src`).
pub mod gram;
pub mod text;

use crate::su::Src;
use std::sync::OnceLock;

/// Seed inputs: string literals extracted from the repository's inline tests, sample programs
pub struct Corpus {
    pub tests: Vec<String>,
    pub programs: Vec<(String, String)>,
}

pub fn verif_root() -> std::path::PathBuf {
    if let Ok(r) = std::env::var("VERIF_ROOT") {
        return r.into();
    }
    // harness/ is one level below the root
    let mut p = std::path::PathBuf::from(env!("CARGO_MANIFEST_DIR"));
    p.pop();
    p
}

pub fn corpus() -> &'static Corpus {
    static C: OnceLock<Corpus> = OnceLock::new();
    C.get_or_init(|| {
        let root = verif_root().join("corpus");
        let mut tests: Vec<String> = vec![];
        if let Ok(txt) = std::fs::read_to_string(root.join("tests.json")) {
            if let Ok(serde_json::Value::Array(a)) = serde_json::from_str::<serde_json::Value>(&txt) {
                for v in a {
                    if let Some(s) = v.as_str() {
                        if !s.is_empty() {
                            tests.push(s.to_string());
                        }
                    }
                }
            }
        }
        let mut programs = vec![];
        for sub in ["sas", "bench"] {
            let mut names: Vec<_> = std::fs::read_dir(root.join(sub))
                .map(|rd| rd.filter_map(|e| e.ok()).map(|e| e.path()).collect())
                .unwrap_or_default();
            names.sort();
            for p in names {
                if let Ok(s) = std::fs::read_to_string(&p) {
                    programs.push((p.file_name().unwrap().to_string_lossy().to_string(), s));
                }
            }
        }
        Corpus { tests, programs }
    })
}

/// pick a corpus test literal
pub fn corpus_item<'a>(s: &mut Src, c: &'a Corpus) -> &'a str {
    if c.tests.is_empty() {
        return "";
    }
    &c.tests[s.below(c.tests.len())]
}

/// a window of a real-world program, cut at char boundaries
pub fn program_window(s: &mut Src, c: &Corpus, max: usize) -> String {
    if c.programs.is_empty() {
        return String::new();
    }
    let p = &c.programs[s.below(c.programs.len())].1;
    let len = p.len();
    if len == 0 {
        return String::new();
    }
    let mut st = (s.below(65536) * len) >> 16;
    while !p.is_char_boundary(st) {
        st -= 1;
    }
    let mut en = (st + 1 + s.below(max.max(1))).min(len);
    while !p.is_char_boundary(en) {
        en += 1;
    }
    p[st..en].to_string()
}
