//! G-text (weighted character classes), G-soup (fragment soup), G-lit (literal bodies),
//! G-num (numeric spellings), case masks.
use super::{corpus, corpus_item, program_window};
use crate::su::Src;

pub const SYMBOL_CHARS: &str = "*(){}[]!¦|¬^~∘+-<>.,:=$@#?;/&%'\"";

const WS: &[&str] = &[" ", " ", " ", "\n", "\n", "\r\n", "\t", "\u{a0}", "\u{2028}", "\u{3000}", "\u{b}", "\u{c}", "\u{85}"];
const MB_LETTERS: &[&str] = &["é", "ж", "中", "𝒳", "ß", "Ω", "ａ", "ǅ", "ⅷ"];
const ODD: &[&str] = &["😀", "\u{301}", "\u{feff}", "\u{0}", "\u{1}", "\u{7f}", "\\", "`", "\u{200b}", "\u{e000}", "©", "§", "€", "·", "٣", "१"];

pub fn g_char(s: &mut Src, out: &mut String) {
    match s.below(16) {
        0..=3 => out.push((b'a' + s.below(26) as u8) as char),
        4 => out.push((b'A' + s.below(26) as u8) as char),
        5 | 6 => out.push((b'0' + s.below(10) as u8) as char),
        7 => out.push('_'),
        8..=10 => {
            let cs: Vec<char> = SYMBOL_CHARS.chars().collect();
            out.push(cs[s.below(cs.len())]);
        }
        11 | 12 => out.push_str(s.pick(WS)),
        13 => out.push_str(s.pick(MB_LETTERS)),
        14 => out.push_str(s.pick(ODD)),
        _ => out.push_str(s.pick(&["%", "&", ";", "'", "\"", "(", ")", "=", ","])),
    }
}

/// arbitrary Unicode text from weighted classes
pub fn g_text(s: &mut Src, max_chars: usize) -> String {
    let n = s.below(max_chars + 1);
    let mut out = String::new();
    for _ in 0..n {
        g_char(s, &mut out);
    }
    out
}

/// Trigger fragments: every macro statement and function keyword with and without `(`, quotes,
/// comment openers, datalines keywords, numeric spellings, mnemonics, %-quotes, line feeds.
pub const FRAGS: &[&str] = &[
    " ", " ", "\n", "\n", ";", ";", "a", "b1", "_x", "x", "1", "42", "2.5", "1e3", "1e", "0fx", "0f", "1x", ".5", "1.", "..",
    "'s'", "'it''s'", "\"d\"", "\"", "'", "''", "\"\"", "\"a\"\"b\"", "/*c*/", "/*", "*/", "*", "**", "* c;", "%*c;", "%*", "%* 'q;' x;",
    "&", "&&", "&mv", "&mv.", "&&a&b..", "&&&x", "&a&b", "&a.b", "%", "%m", "%m(", "%m()", "%m(a", "%m(a=", "%m(a,b=1)", "%mac ", "(", ")", ",", "=", "/", ":",
    "%let", "%let ", "%let a=1;", "%let a", "%put", "%put ", "%if", "%if ", "%then", "%then ", "%else", "%else ", "%do", "%do ", "%do;", "%to", "%to ", "%by", "%by ",
    "%end", "%end;", "%while", "%while(", "%until", "%until(", "%macro", "%macro ", "%macro m;", "%macro m(", "%mend", "%mend;", "%mend m;",
    "%eval(", "%sysevalf(", "%str(", "%nrstr(", "%scan(", "%qscan(", "%substr(", "%qsubstr(", "%sysfunc(", "%qsysfunc(", "%syscall", "%syscall ",
    "%local", "%local ", "%global", "%global ", "%goto", "%goto ", "%lbl:", "%lbl :", "%return", "%copy", "%copy ", "%upcase(", "%index(", "%cmpres(",
    "%verify(", "%superq(", "%bquote(", "%nrbquote(", "%quote(", "%nrquote(", "%unquote(", "%include", "%include ", "%inc ", "%sysmexecdepth", "%sysmexecname(",
    "%abort", "%display", "%input", "%window", "%symdel", "%sysexec", "%syslput", "%sysrput", "%sysmacdelete", "%sysmstoreclear", "%list", "%run", "%symexist(",
    "%sysget(", "%length(", "%lowcase(", "%qlowcase(", "%left(", "%qleft(", "%trim(", "%qtrim(", "%datatyp(", "%compstor(", "%kscan(", "%ksubstr(", "%kupcase(",
    "%qupcase(", "%sysprod(", "%symglobl(", "%symlocal(", "%sysmacexec(", "%sysmacexist(", "%validchs(", "%kindex(", "%klength(", "%kverify(", "%kcmpres(", "%kleft(", "%ktrim(", "%klowcase(",
    "datalines;", "cards;", "lines;", "datalines4;", "cards4;", "lines4;", "datalines", "cards", "CARDS ;", "DataLines4 ;", ";;;;", ";;",
    "$f.", "$", "$12.", "$é3.2", "$char10.", "$fmtü5.", "$f𠀀.", "$тест.", "$a€b12.3", "fmtü5.", "eq", "ne", "and", "or", "not", "in", "lt", "le", "gt", "ge", "EQ", "Ne", "AND", "IN",
    "+", "-", "<", ">", "<=", ">=", "<>", "><", "|", "||", "!!", "¦¦", "^=", "~=", "¬=", "^", "~", "¬", "∘", "#", "=*", "?", "@", "{", "}", "[", "]", "!",
    "%'", "%\"", "%%", "%(", "%)", "%=", "%^", "%~=", "%/", "'41'x", "\"41\"x", "'4'x", "'4,1'x", "'+1'x", "'ab'X", "'a'b", "'a'd", "\"a\"dt", "'a'n", "'a't", "\"&a\"d", "\"&a\"x",
    "d", "dt", "n", "t", "b", "é", "é1", "😀", "\u{a0}", "\u{2028}", ".", "data", "run", "proc", "_null_", "_all_", "corr", "readonly", "/ readonly ", "input", "put",
    // characters on the borders between Unicode properties (Alphabetic vs XID_Start vs XID_Continue vs alphanumeric, White_Space,
    // case mappings that are not 1:1 or map into ASCII), alone and glued to ASCII neighbours
    "\u{903}", "\u{345}", "\u{24b6}", "\u{2118}", "\u{212e}", "\u{b7}", "\u{301}", "\u{663}", "\u{b2}", "\u{bd}", "\u{2167}", "\u{200b}", "\u{180e}", "\u{212a}", "\u{17f}", "\u{130}", "\u{131}", "\u{df}", "\u{1c5}", "\u{fb01}", "\u{85}", "\u{17f}et", "\u{212a}eep", "%\u{24b6}", "&\u{24b6}", "%\u{903}", "&\u{903}", "x\u{301}", "\u{903}y", "\u{2118}x", "e\u{301}q", "%\u{2118}(", "&\u{212e}.", "\u{b2}x", "x\u{b2}", "1\u{663}", "run\u{b7}", "\u{130}f", "%\u{131}f", "%\u{17f}tr(", "data\u{200b}",
    "\u{128}", "\u{129}", "\u{12c}", "\u{12f}", "\u{13b}", "\u{13d}", "\u{127}", "\u{122}", "\u{125}m", "\u{126}v", "\u{12a}", "\u{10a}", "\u{120}", "\u{100}", "\u{2728}", "%upcase\u{2728}x)", "%m\u{128}a)", "%let a\u{13d}1;",
    "%m /*", "%m /**/ /* x", "\"%m /* x", "%m\n/* c */ /*", "%m /* %put x;", "%m(a /*", "%l /*c*/ : /*",
    "\0", "%end\0", "%m(\0)", "\"\0\"", "%\0", "&\0", "'\0", "/*\0", "%let a=\0;", "%eval(\0)", "1\0", "a\0",
    "\r\n", "\t", "18446744073709551615", "18446744073709551616", "0FFFFFFFFFFFFFFFFFx", "1e309", "1E+5", "1e-5x", "\\", "`", "\u{1}", "\u{feff}",
    "%sysfunc(max(", ",", ",", "=", "(", ")", ")", "x=1;", "run;", "%m;", "%m(1);", "%end; ", "%then %do;", "%else %do;", "%do i=1 %to 3;", "%do %while(", "%do %until(",
];

fn all_kw_words() -> &'static Vec<String> {
    static W: std::sync::OnceLock<Vec<String>> = std::sync::OnceLock::new();
    W.get_or_init(|| crate::oracle::kw::kw_table().keys().cloned().collect())
}
fn all_kwm_words() -> &'static Vec<String> {
    static W: std::sync::OnceLock<Vec<String>> = std::sync::OnceLock::new();
    W.get_or_init(|| crate::oracle::kw::kwm_table().keys().cloned().collect())
}

/// fragment soup
pub fn g_soup(s: &mut Src, max_frags: usize) -> String {
    let c = corpus();
    let mut out = String::new();
    if s.coin(1, 16) {
        out.push('\u{feff}');
    }
    let k = 1 + s.below(max_frags);
    for _ in 0..k {
        match s.below(18) {
            0 | 1 => out.push_str(corpus_item(s, c)),
            2 => {
                let t = g_text(s, 6);
                out.push_str(&t);
            }
            16 => {
                // every open-code keyword of the token type enum (names only; spelling case varies)
                let ws = all_kw_words();
                let w = &ws[s.below(ws.len())];
                if s.coin(1, 4) { out.push_str(&w.to_ascii_lowercase()); } else { out.push_str(w); }
                // ... also as the prefix of a longer identifier (no keyword then) and glued to other characters
                out.push_str(s.pick(&[" ", " ", ";", "", "(", "=", "_id ", "2 ", "ly;", "x=", "\u{e9} ", ".", "1"]));
            }
            17 => {
                // every macro keyword, with and without '('
                let ws = all_kwm_words();
                let w = &ws[s.below(ws.len())];
                out.push('%');
                if s.coin(1, 4) { out.push_str(&w.to_ascii_lowercase()); } else { out.push_str(w); }
                out.push_str(s.pick(&["(", "(", " ", "", ";", " (", "(a,", "(a)", "x(", "_1 ", "2;", "y(a)"]));
            }
            3 => {
                if s.coin(1, 6) {
                    let w = program_window(s, c, 120);
                    out.push_str(&w);
                } else {
                    out.push_str(s.pick(FRAGS));
                }
            }
            _ => out.push_str(s.pick(FRAGS)),
        }
    }
    out
}

/// dense repetition of one fragment (work/output linearity, deep stacks)
pub fn g_repeat(s: &mut Src, max_rep: usize) -> String {
    match s.below(10) {
        0 => {
            // '&' runs around the 2^k boundaries (MacroVarResolve payload = log2 of the run length)
            let k = s.below(15);
            let n = ((1usize << k) + s.below(3)).saturating_sub(1).max(1);
            let n = if s.coin(1, 2) { n } else { 1 + s.below(40) };
            let pre = s.pick(&["", "x=", "%put ", "\"", "%let a=", "%m(", "%eval("]);
            let post = s.pick(&["a", "a.", "a;", " a", "", "1", "&b..c", "a&b"]);
            return format!("{pre}{}{post}", "&".repeat(n));
        }
        1 => {
            // a long run of one small fragment: capacity growth of the buffers, deep stacks
            let f = s.pick(&[";", "a ", "(", "%m(", "%do;", "\n", "1 ", "'' ", "&a", "%str(", "\"&a", "/**/", "%if 1 %then ", ",", "%eval(", "é", "x=1;"]);
            let n = 50 + s.below(65536) % 1500;
            return f.repeat(n);
        }
        _ => {}
    }
    let f = if s.coin(1, 4) { corpus_item(s, corpus()).to_string() } else { s.pick(FRAGS).to_string() };
    let g = if s.coin(1, 3) { s.pick(FRAGS).to_string() } else { String::new() };
    let n = 2 + s.below(max_rep);
    let mut out = String::new();
    for _ in 0..n {
        out.push_str(&f);
        out.push_str(&g);
    }
    out
}

/// Replace some single-byte letters by multi-byte ones / insert multi-byte characters (C03)
pub fn mutate_multibyte(s: &mut Src, base: &str, rate_256: usize) -> String {
    let mut out = String::with_capacity(base.len() * 2);
    for ch in base.chars() {
        if ch.is_ascii_lowercase() && s.below(256) < rate_256 {
            out.push_str(s.pick(MB_LETTERS));
        } else if ch == ' ' && s.below(256) < rate_256 / 2 {
            out.push_str(s.pick(&["\u{a0}", "\u{3000}", "\u{2028}", " "]));
        } else {
            out.push(ch);
            if s.below(256) < rate_256 / 8 {
                out.push_str(s.pick(&["😀", "é", "\u{301}", "中"]));
            }
        }
    }
    out
}

pub const UNICODE_WS: &[&str] = &["\u{b}", "\u{c}", "\u{85}", "\u{a0}", "\u{1680}", "\u{2003}", "\u{2009}", "\u{2028}", "\u{2029}", "\u{202f}", "\u{205f}", "\u{3000}", "\t", "\r"];

/// replace some ASCII blanks by other Unicode White_Space characters (every whitespace position
/// of a generated input becomes a position for non-ASCII whitespace)
pub fn mutate_unicode_ws(s: &mut Src, base: &str, rate_256: usize) -> String {
    let mut out = String::with_capacity(base.len() + 8);
    for ch in base.chars() {
        if ch == ' ' && s.below(256) < rate_256 {
            out.push_str(s.pick(UNICODE_WS));
        } else {
            out.push(ch);
        }
    }
    out
}

/// insert line feeds at random positions (C04)
pub fn mutate_linefeeds(s: &mut Src, base: &str, rate_256: usize) -> String {
    let mut out = String::with_capacity(base.len() * 2);
    for ch in base.chars() {
        if s.below(256) < rate_256 {
            out.push_str(s.pick(&["\n", "\n", "\r\n", "\n\n"]));
        }
        out.push(ch);
    }
    if s.coin(1, 4) {
        out.push('\n');
    }
    out
}

/// ASCII case variant by a mask drawn from the stream
pub fn case_variant(s: &mut Src, base: &str) -> String {
    let mode = s.below(4);
    base.chars()
        .map(|c| {
            if c.is_ascii_alphabetic() {
                let flip = match mode {
                    0 => true,
                    1 => s.coin(1, 2),
                    2 => s.coin(1, 4),
                    _ => s.coin(3, 4),
                };
                if flip {
                    if c.is_ascii_lowercase() { c.to_ascii_uppercase() } else { c.to_ascii_lowercase() }
                } else {
                    c
                }
            } else {
                c
            }
        })
        .collect()
}

// ---------- G-lit: quoted literal and %str bodies with escapes everywhere
const LIT_PIECES: &[&str] = &[
    "a", "b c", "''", "\"\"", "'", "\"", "%'", "%\"", "%%", "%(", "%)", "%", "/", "&", "&&", "\n", "é", "😀", " ", ",", ";", "=", "(", ")", "&mv", "&mv.", "%m", "%m(x)",
    "%let", "*/", "/*", "--", ".", "41", "4a", "4", ",", "+1", "zz", "0", "FF", "ff",
];

pub fn g_lit_case(s: &mut Src) -> String {
    let body = |s: &mut Src, allow: &dyn Fn(&str) -> bool, maxn: usize| -> String {
        let n = s.below(maxn + 1);
        let mut b = String::new();
        for _ in 0..n {
            let p = s.pick(LIT_PIECES);
            if allow(p) {
                b.push_str(p);
            } else {
                b.push('a');
            }
        }
        b
    };
    let kind = s.below(12);
    let suffix = |s: &mut Src| -> &'static str { s.pick(&["", "", "", "b", "d", "dt", "n", "t", "x", "X", "DT", "N"]) };
    let lit = match kind {
        0 | 1 => {
            // single quoted: lone ' not allowed inside (it would terminate) - only doubled
            let b = body(s, &|p| p != "'" && p != "%'", 6);
            format!("'{}'{}", b, suffix(s))
        }
        2 | 3 => {
            let b = body(s, &|p| p != "\"" && p != "%\"", 6);
            format!("\"{}\"{}", b, suffix(s))
        }
        4 => {
            // hex strings
            let n = s.below(7);
            let mut b = String::new();
            for _ in 0..n {
                if s.coin(1, 3) {
                    // an arbitrary byte, each digit in either case
                    let hx = |s: &mut Src| -> char { let d = s.below(16) as u32; let c = std::char::from_digit(d, 16).unwrap(); if s.coin(1, 2) { c.to_ascii_uppercase() } else { c } };
                    let (h, l) = (hx(s), hx(s)); b.push(h); b.push(l);
                } else {
                    b.push_str(s.pick(&["41", "4a", "4A", "4", ",", "+1", "-1", "zz", " ", "0", "FF", "ff", "é", "1", "a", "C3A9", "c3a9", "E282AC", "e2,82,ac", "F09F9880", "C2A0", "0d0a", "0D0A", "80", "EFBBBF"]));
                }
            }
            let q = if s.coin(1, 2) { '\'' } else { '"' };
            format!("{q}{b}{q}{}", s.pick(&["x", "X"]))
        }
        5 | 6 | 7 => {
            // %str / %nrstr: balanced parens only via %( %)
            let b = body(s, &|p| !matches!(p, "(" | ")" | "'" | "\"" | "/*" | "*/"), 7);
            format!("{}({})", s.pick(&["%str", "%nrstr", "%STR", "%NRSTR", "%str ", "%nrstr\n"]), b)
        }
        8 => {
            // unterminated at end of input
            let b = body(s, &|p| p != "'" && p != "%'", 5);
            return format!("{}'{}", s.pick(&["", "x=", "%let a="]), b);
        }
        9 => {
            let b = body(s, &|p| p != "\"" && p != "%\"", 5);
            return format!("{}\"{}", s.pick(&["", "x=", "%put "]), b);
        }
        _ => {
            // any pieces at all
            let b = body(s, &|_| true, 8);
            b
        }
    };
    let (pre, post) = s.pick_t(&[
        ("", ""), ("", ";"), ("x=", ";"), ("%let a=", ";"), ("%put ", ";"), ("%m(", ")"), ("%m(a=", ",b)"), ("\"p ", " q\""), ("%eval(", ")"), ("%if ", " %then;"),
        ("%m ", ";"), ("%macro m(a=", ");"), ("%sysfunc(f(", "))"), ("%upcase(", ")"), ("%do i=", " %to 2;"), ("data;", "run;"), ("%str(", ")"), ("%nrstr(", ")"), ("%m(a ", ")"),
    ]);
    format!("{pre}{lit}{post}")
}

// ---------- G-num: numeric spellings
const NUM_PARTS: &[&str] = &[
    "0", "1", "9", "12", "007", "18446744073709551615", "18446744073709551616", "9007199254740993", "9007199254740992", "123456789012345678901234567890", "4.35", "0.1",
    "2.2250738585072011", "8.98846567431158e307", "4.9406564584124654", "1797693134862315708145274237317043567981", ".", "..", "e", "E", "+", "-", "x", "X", "a", "f", "F", "d", "b",
    " ", "e308", "e309", "e-324", "e-400", "E+10", "5e-324", "1e23", "8.5e-21", "0.3", "1e22", "9.5", "ffffffffffffffff", "10000000000000000", "2.5", "1e5", "0ab", "0.000001",
    "2.4703282292062327e-324", "2.4703282292062328e-324", "1.7976931348623158e308", "1.7976931348623159e308", "9007199254740993.0", "0.500000000000000166533453693773481063544750213623046875",
];
pub const NUM_CTX: &[(&str, &str)] = &[
    ("", ";"), ("x=", ";"), ("%eval(", ")"), ("%sysevalf(", ")"), ("%if ", " %then;"), ("%sysfunc(max(", ",2))"), ("%let a=", ";"), ("%m(", ")"), ("%do i=", " %to 5;"),
    ("%scan(a,", ")"), ("", ""), ("y ", " z"), ("%substr(a,", ",2)"), ("%do %while(", ");"), ("%eval(1+", ")"), ("%sysevalf(2*", ")"), ("%qsysfunc(f(", "))"),
];
pub fn g_num_case(s: &mut Src) -> String {
    let k = 1 + s.below(5);
    let mut lit = String::new();
    for _ in 0..k {
        if s.coin(1, 6) {
            let n = 1 + s.below(24);
            for _ in 0..n {
                lit.push((b'0' + s.below(10) as u8) as char);
            }
        } else {
            lit.push_str(s.pick(NUM_PARTS));
        }
    }
    let (pre, post) = NUM_CTX[s.below(NUM_CTX.len())];
    format!("{pre}{lit}{post}")
}
