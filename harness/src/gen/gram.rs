//! G-gram: the construct grammar of DESIGN.md section 4.6.
//!
//! Emits a statement-complete, delimiter-balanced program together with metadata: the offsets of
//! every real delimiter, every masked delimiter, operators and integer operands of expressions,
//! insignificant gaps, `%str` regions and the deletable mandatory delimiters of C14.
#![allow(clippy::all)]
use crate::su::Src;

#[derive(Debug, Clone, Copy, PartialEq, Eq)]
pub enum MK { // mark kinds
    Delim(&'static str, bool),  // expected token type name, hidden channel?
    Masked,                    // a delimiter-looking char that must NOT start a token of delimiter type
    Op(&'static str),          // operator in eval expr: expected token type name
    IntOperand,                // standalone integer operand in eval
    HiddenWs,                  // insignificant ws/comment token must be hidden/comment channel
    NotInt,                    // a digit run that is only part of an operand (glued to a macro variable reference): not an integer-literal token
    Word,                      // an operand word: no operator token may start inside it (a mnemonic is only one at a word boundary)
}
#[derive(Debug, Clone)]
pub struct Mark { pub off: usize, pub len: usize, pub kind: MK }
#[derive(Debug, Clone)]
pub struct Deletable { pub off: usize, pub len: usize, pub err: &'static str, pub tok: &'static str, pub at_mark: Option<usize> /* index into `anchors` giving expected position */ }
pub struct G<'a> { pub u: Src<'a>, pub out: String, pub marks: Vec<Mark>, pub dels: Vec<Deletable>, pub anchors: Vec<usize>, pub depth: usize, pub feats: Vec<&'static str>, pub in_macro: usize, pub str_regions: Vec<(usize, usize)>, pub last_int: bool, pub max_depth: usize, pub open_parens: usize, pub open_calls: usize, pub open_text: usize, pub force_nonword: bool, pub lenient: bool, pub in_stmt_expr: bool, pub trunc_points: Vec<(usize, usize, usize, usize)> }

// (names of 31 and 32 characters: 32 is the SAS limit and a valid name)
const IDENTS: &[&str] = &["a", "b", "x1", "_v", "abc", "var_2", "tbl", "col", "é1", "mylib", "Z", "calc_rolling_std_for_all_numeric", "output_dataset_name_with_prefix"];
const MNAMES: &[&str] = &["m", "mymac", "util_1", "_m", "doit", "M2", "calc_rolling_std_for_all_numeric", "output_dataset_name_with_prefix"];
// names of *called* macros may contain non-ASCII letters (definitions stay ASCII, as the lexer documents)
// (the last names have a macro keyword as a prefix: they are ordinary user macros)
const CALLNAMES: &[&str] = &["m", "mymac", "util_1", "_m", "doit", "M2", "größe", "тест", "é", "m", "whilex", "until_v", "dox", "endx", "letx", "strx", "evalx", "thenx", "tox", "byx", "WHILE2", "mendy", "ifa", "putx", "calc_rolling_std_for_all_numeric"];
const MVARS: &[&str] = &["v", "mv", "i", "n1", "_x", "lib", "Dsn", "é", "тест", "calc_rolling_std_for_all_numeric", "to", "by", "end", "do", "input", "eq", "str", "In"];
// names spelled like macro statement keywords, built-ins or mnemonics (without the '%' they are ordinary names)
const KWNAMES: &[&str] = &["by", "to", "input", "list", "local", "window", "do", "end", "if", "then", "else", "let", "put", "until", "while", "global", "run", "eval", "str", "scan", "TO", "By", "macro", "mend", "return", "abort", "goto", "length", "index", "upcase", "and", "or", "not", "eq", "in", "sysfunc", "nrstr", "display", "copy", "symdel"];
const OPEN_KW: &[&str] = &["data", "set", "run", "proc", "if", "then", "else", "do", "end", "by", "where", "select", "from", "output", "keep", "format", "input", "put", "length", "_null_", "and", "or", "not", "in", "eq", "ne"];
const OPEN_SYM: &[&str] = &["=", "+", "-", "/", "<", ">", "<=", ">=", "^=", "~=", "||", "|", "!!", ",", ".", ":", "@", "#", "?", "**", "<>", "><", "=*", "{", "}", "[", "]", "&", "&&", "%", "$", "¬", "¬=", "!", "¦", "¦¦", "∘", "^"];
// (the last words start with letters whose code point ends in the byte of an ASCII delimiter: U+0128 ( U+0129 ) U+012C ,
// U+012F / U+013B ; U+013D = U+0127 quote U+0125 percent U+0126 ampersand - a `char as u8` comparison would take them for it)
const WORDS: &[&str] = &["a", "abc", "x1", "some", "text", "v_1", "é", "data", "q2", "\u{128}a", "\u{129}", "\u{12c}b", "\u{12f}c", "\u{13b}d", "\u{13d}x", "\u{127}q", "\u{125}m", "\u{126}v", "\u{428}\u{430}\u{433}"];

/// every open-code keyword (from the names of the compiled token types), lower case, as the grammar writes them;
/// `datalines`-like words are left out (they start a data block)
fn all_open_keywords() -> &'static Vec<String> {
    static V: std::sync::OnceLock<Vec<String>> = std::sync::OnceLock::new();
    V.get_or_init(|| {
        let mut v: Vec<String> = vec![];
        for &t in crate::api::all_token_types() {
            if crate::oracle::kw::is_kw(t) {
                for k in crate::oracle::kw::keywords_of(t) {
                    let k = k.to_ascii_lowercase();
                    if !["datalines", "cards", "lines", "datalines4", "cards4", "lines4"].contains(&k.as_str()) {
                        v.push(k);
                    }
                }
            }
        }
        v.sort();
        v.dedup();
        v
    })
}

impl<'a> G<'a> {
    pub fn new(data: &'a [u8]) -> G<'a> { G { u: Src::new(data), out: String::new(), marks: vec![], dels: vec![], anchors: vec![], depth: 0, feats: vec![], in_macro: 0, str_regions: vec![], last_int: false, max_depth: 0, open_parens: 0, open_calls: 0, open_text: 0, force_nonword: false, lenient: false, in_stmt_expr: false, trunc_points: vec![] } }
    fn d_inc(&mut self) { self.depth += 1; if self.depth > self.max_depth { self.max_depth = self.depth; } }
    fn p(&mut self, s: &str) { self.out.push_str(s); }
    // a macro keyword in a random letter case (keywords are case-insensitive)
    fn pk(&mut self, s: &str) {
        match self.u.below(8) {
            6 => { let u = s.to_ascii_uppercase(); self.out.push_str(&u); }
            7 => { let m: String = s.chars().enumerate().map(|(i, c)| if i % 2 == 0 { c.to_ascii_uppercase() } else { c }).collect(); self.out.push_str(&m); }
            5 => { let mut m = String::new(); for c in s.chars() { if self.u.coin(1, 2) { m.push(c.to_ascii_uppercase()); } else { m.push(c); } } self.out.push_str(&m); }
            _ => self.out.push_str(s),
        }
    }
    fn pick<'b>(&mut self, xs: &[&'b str]) -> &'b str { xs[self.u.below(xs.len())] }
    fn feat(&mut self, f: &'static str) { if !self.feats.contains(&f) { self.feats.push(f); } }
    fn mark(&mut self, s: &str, kind: MK) {
        let off = self.out.len(); self.out.push_str(s); self.marks.push(Mark { off, len: s.len(), kind });
        match kind { MK::Delim("LPAREN", _) | MK::Op("LPAREN") => self.open_parens += 1, MK::Delim("RPAREN", _) | MK::Op("RPAREN") => self.open_parens = self.open_parens.saturating_sub(1), _ => {} }
        // parentheses that are a call's / definition's own delimiters (each has its own mandatory ')')
        match kind { MK::Delim("LPAREN", _) => self.open_calls += 1, MK::Delim("RPAREN", _) => self.open_calls = self.open_calls.saturating_sub(1), _ => {} }
    }
    // parentheses of a nested group inside argument text (text for the lexer, but counted by its nesting level)
    fn gopen(&mut self) { self.p("("); self.open_parens += 1; self.open_text += 1; }
    fn gclose(&mut self) { self.p(")"); self.open_parens = self.open_parens.saturating_sub(1); self.open_text = self.open_text.saturating_sub(1); }
    // a point inside open call parentheses at which the input may be cut: every '(' still open there must get its virtual ')'
    // a name whose first and second characters are drawn from the whole ASCII name alphabet
    fn rand_name(&mut self) -> String {
        const START: &[u8] = b"abcdefghijklmnopqrstuvwxyzABCDEFGHIJKLMNOPQRSTUVWXYZ_";
        const CONT: &[u8] = b"abcdefghijklmnopqrstuvwxyzABCDEFGHIJKLMNOPQRSTUVWXYZ_0123456789";
        let mut n = String::new();
        n.push(START[self.u.below(START.len())] as char);
        n.push(CONT[self.u.below(CONT.len())] as char);
        n.push_str("q7");
        n
    }
    fn tp(&mut self) { if self.open_parens > 0 { self.trunc_points.push((self.out.len(), self.open_parens, self.open_calls, self.open_text)); } }
    fn anchor(&mut self) -> usize { self.anchors.push(self.out.len()); self.anchors.len() - 1 }
    // insignificant whitespace/comments (hidden)
    fn ows(&mut self) { match self.u.below(9) { 0 | 1 | 2 | 3 => {} 4 => self.mark(" ", MK::HiddenWs), 5 => { let w = self.pick(&["\n", "\n", "\r\n", "\r", " \r\n\t"]); self.mark(w, MK::HiddenWs) } 6 => self.mark("  \t", MK::HiddenWs), 7 => { self.uws(); } _ => { if self.u.coin(1, 4) { self.mark("/*a*//*b,(*/", MK::HiddenWs); } else if self.u.coin(1, 4) { self.mark("/*a*/ /*b*/\n", MK::HiddenWs); } else { self.mark("/*c,=;)*/", MK::HiddenWs); } self.feat("comment-in-gap"); } } }
    fn rws(&mut self) { match self.u.below(9) { 0 | 1 | 2 | 3 => self.mark(" ", MK::HiddenWs), 4 | 5 => { let w = self.pick(&["\n", "\n", "\n", "\r\n", "\r"]); self.mark(w, MK::HiddenWs) } 6 => self.uws(), 7 => self.mark("/*c*/", MK::HiddenWs), _ => self.mark(" /*c*/ ", MK::HiddenWs) } }
    // whitespace that is not ASCII (the lexer's whitespace is Unicode White_Space)
    fn uws(&mut self) { self.feat("non-ascii-whitespace-gap"); let w = self.pick(&["\u{a0}", "\u{2003}", "\u{b}", "\u{3000} ", "\u{85}", " \u{2028}", "\u{c}", "\u{1680}\t"]); self.mark(w, MK::HiddenWs); }
    fn plain_ws(&mut self) { let w = match self.u.below(4) { 0 | 1 => " ", 2 => "\n", _ => "  " }; self.p(w); }

    pub fn program(&mut self) { let n = 1 + self.u.below(5); for _ in 0..n { self.stmt(); if self.u.coin(1, 2) { self.plain_ws(); } } }

    pub fn stmt(&mut self) {
        self.d_inc();
        let k = if self.depth > 4 { self.u.below(4) } else { self.u.below(20) };
        match k {
            0 | 1 => self.open_stmt(),
            2 => self.let_stmt(),
            3 => self.put_stmt(),
            4 => self.comment_stmt(),
            5 => self.datalines_block(),
            6 => self.if_stmt(),
            7 => self.do_block(),
            8 => self.macro_def(),
            9 => self.call_stmt(),
            10 => self.local_global(),
            11 => self.goto_label(),
            12 => self.misc_stat(),
            13 => { self.open_stmt(); }
            _ => self.open_stmt(),
        }
        self.depth -= 1;
    }
    fn body(&mut self) { let n = self.u.below(4); for _ in 0..n { if self.u.coin(1, 2) { self.plain_ws(); } self.stmt(); } if self.u.coin(1, 2) { self.plain_ws(); } if self.u.coin(1, 5) { self.open_tail(); } }
    // conditional / function-style text: an open-code fragment that is not terminated by ';' before %end / %mend
    fn open_tail(&mut self) {
        self.feat("body-tail-without-semi");
        if !self.out.ends_with([' ', '\n']) { self.p(" "); }
        let n = 1 + self.u.below(3);
        for i in 0..n {
            if i > 0 { self.p(" "); }
            match self.u.below(8) {
                6 | 7 => { self.d_inc(); self.user_call(0); self.depth -= 1; if !self.out.ends_with(')') { self.p(" w"); } }
                0 | 1 => { let s = self.pick(IDENTS); self.p(s); }
                2 => self.number(),
                3 => { self.mvar(true); }
                4 => { let s = self.pick(IDENTS); self.p(s); self.p(" + 1"); }
                _ => { self.p("%length("); self.mvar(true); self.p(") - 1"); }
            }
        }
        self.p(" ");
    }

    // ---------- open code
    fn open_stmt(&mut self) {
        self.feat("open-stmt");
        let n = 1 + self.u.below(6);
        let mut prev_wordlike = false;
        let mut sig = false; // a significant (non-comment) token has been emitted in this statement
        if self.u.coin(1, 40) { self.feat("nul-character"); self.p("\0"); }
        for i in 0..n {
            let mut k = self.u.below(12);
            if !sig && matches!(k, 5 | 10) { k = 0; }
            let wordlike = matches!(k, 0 | 1 | 2 | 3 | 4 | 6 | 7 | 9);
            if i > 0 { if prev_wordlike && wordlike { self.plain_ws(); } else if self.u.coin(1, 2) { self.plain_ws(); } }
            match k {
                0 if self.u.coin(1, 5) => { self.feat("composite-open-code-name"); let s = self.pick(&["out_", "lib.", "x", "v_", "t"]); self.p(s); self.mvar(true); if self.u.coin(1, 2) { let t = self.pick(&["_x", "y", ".z", "1"]); self.p(t); } if self.u.coin(1, 3) { self.p("%m(a)"); if self.u.coin(1, 2) { self.p("_t"); } } }
                0 => { let s = self.pick(IDENTS); self.p(s); }
                1 => { if self.u.coin(1, 3) { let s = self.pick(&["$char10.", "best12.2", "date9.", "$20.", "8.", "$upcase8.", "comma12.", "$fmtü5.", "$тест.", "8.2", "e8.", "$8.", "z5.", "yymmdd10.", "$hex4.", "12.", "commax12.2", "best.", "$char."]); self.p(s); } else { let s = self.pick(IDENTS); self.p(s); } }
                2 if self.u.coin(1, 2) => { let all = all_open_keywords(); let i = self.u.below(all.len()); self.p(&all[i]); }
                2 => { let s = self.pick(OPEN_KW); self.p(s); }
                3 => self.number(),
                4 => { if self.u.coin(1, 8) { self.str_with_stat(); } else { self.str_lit(); } }
                5 => { let s = self.pick(OPEN_SYM); self.p(s); self.p(" "); } // space avoids gluing into macro triggers / other symbols
                6 => { self.mvar(true); }
                7 => { self.user_call(0); if !self.out.ends_with(')') { self.p(" "); let s = self.pick(IDENTS); self.p(s); } }
                8 => { self.p("("); let s = self.pick(IDENTS); self.p(s); self.p(")"); }
                9 => { self.builtin_call(0); }
                10 if self.depth < 5 && self.u.coin(1, 3) => {
                    // a macro statement in the middle of an open-code statement: the statement is still pending after it, so
                    // a '*' is a multiplication and the ';' inside the quoted operand does not end anything
                    self.feat("macro-statement-inside-open-statement");
                    self.p(" "); self.d_inc();
                    match self.u.below(3) { 0 => self.let_stmt(), 1 => self.put_stmt(), _ => { self.p("%if 1 %then %do; + 1 %end;"); } }
                    self.depth -= 1;
                    let t = self.pick(&[" * \"a;b\" ", " * 'c;d' ", "* \"a;b\" * x ", " * 2 "]); self.p(t); // (the blank keeps a following piece from becoming a literal suffix)
                }
                10 => { self.p("* "); let s = self.pick(IDENTS); self.p(s); }
                _ => { self.p("/* cmt */"); }
            }
            if matches!(k, 0 | 1 | 2 | 3 | 4 | 5 | 6 | 8 | 10) { sig = true; }
            prev_wordlike = wordlike;
        }
        if self.u.coin(1, 3) { self.plain_ws(); }
        self.p(";");
    }
    fn number(&mut self) { let s = self.pick(&["0", "1", "42", "007", "3.14", "1.", ".5", "1e3", "2.5E-3", "1E+10", "0ffx", "1Ax", "18446744073709551615", "18446744073709551616", "123456789012345678901234567890", "1e308"]); self.p(s); }
    fn str_lit(&mut self) {
        self.feat("string");
        match self.u.below(8) {
            0 => self.p("'abc'"), 1 => self.p("'it''s'"), 2 => self.p("'a;b,c)'"), 3 => self.p("\"plain\""), 4 => self.p("\"say \"\"hi\"\"\""),
            5 => { self.p("\"x"); self.tp(); self.mvar(true); self.tp(); self.p(" y"); self.tp(); self.p("\""); self.feat("strexpr-mvar"); }
            6 => { self.p("\"p "); self.tp(); if self.u.coin(1, 2) { self.user_call(1); } else { self.feat("strexpr-builtin"); self.d_inc(); self.builtin_call(1); self.depth -= 1; } self.p(" q"); self.tp(); self.p("\""); self.feat("strexpr-call"); }
            _ => { let s = self.pick(&["'01jan2020'd", "'12:00't", "'1jan20:0:0'dt", "'my var'n", "'4a4B'x", "\"41,42\"X", "'1010'b", "\"&v\"d", "\"&v\"n", "\"&v\"t", "\"4&v\"x", "\"&v\"b", "\"&v\"dt", "\"&v\"DT", "\"100% sure\"", "\"a & b && c\"", "\"line1\nline2\"", "'a\nb'", "\"%m is 50% of &v\"", "''", "\"\""]); self.p(s); }
        }
    }
    // a double-quoted string expression containing a macro statement (allowed in open code, call arguments and %str bodies)
    fn str_with_stat(&mut self) {
        self.feat("stat-in-string"); self.p("\"s "); self.tp();
        self.d_inc(); if self.u.coin(1, 2) { self.let_stmt(); } else { self.put_stmt(); } self.depth -= 1;
        self.p(" e"); self.tp(); self.p("\"");
    }
    fn mvar(&mut self, dots: bool) { self.feat("mvar"); let rn = self.rand_name(); let v = if self.u.coin(1, 6) { rn.as_str() } else { self.pick(MVARS) }; match self.u.below(if dots { 12 } else { 8 }) { 0 if self.u.coin(1, 3) => { self.feat("mvar-odd-continuation-run"); let f = self.pick(&["&a&&&b..c", "&a&&&&&b..z", "&a&&&&&&&b...z", "&&&a&&&b..z", "&a&&&b.c", "&v&&&&&&w.."]); self.p(f); } 0 | 1 => { self.p("&"); self.p(v); } 2 => { self.p("&"); self.p(v); self.p("."); } 3 => { self.p("&&"); self.p(v); self.p("&i"); } 4 => { self.p("&&&"); self.p(v); } 5 => { self.feat("mvar-forms"); self.p("&&&&"); self.p(v); self.p("."); } 6 => { self.feat("mvar-forms"); self.p("&"); self.p(v); self.p(".&"); self.p(v); self.p("."); } 7 => { self.feat("mvar-forms"); self.p("&&"); self.p(v); self.p("&&i."); } 8 => { self.p("&"); self.p(v); self.p("&n1.."); } 9 => { self.feat("mvar-forms"); self.p("&"); self.p(v); self.p("._x"); } 10 => { self.feat("mvar-forms"); self.p("&&pre&i.._suf"); } _ => { self.feat("mvar-forms"); self.p("&"); self.p(v); self.p("..x"); } } }

    // ---------- macro calls
    // ctx: 0 = open code / text, 1 = inside string expr, 2 = inside macro arg/value
    fn user_call(&mut self, ctx: usize) {
        let saved_stmt = self.in_stmt_expr;
        self.in_stmt_expr = false;
        self.user_call_inner(ctx);
        self.in_stmt_expr = saved_stmt;
    }
    fn user_call_inner(&mut self, _ctx: usize) {
        self.feat("user-call");
        let rn = self.rand_name();
        let name = if self.u.coin(1, 6) { rn.as_str() } else { self.pick(CALLNAMES) }; self.p("%"); self.p(name);
        if !name.is_ascii() { self.feat("non-ascii-macro-name"); }
        if self.u.coin(1, 3) { return; } // argless; callers add a non-( follower
        self.ows();
        self.mark("(", MK::Delim("LPAREN", false));
        let n = self.u.below(4);
        self.d_inc();
        for i in 0..n {
            if i > 0 { self.mark(",", MK::Delim("COMMA", false)); }
            self.ows();
            if self.u.coin(1, 3) { // named
                self.feat("named-arg");
                // the name may itself be produced by macro code: ident, ident&mv, &mv, an argument-less call, ident%call ...
                match self.u.below(8) {
                    0 => { self.feat("named-arg-name-mvar"); let an = self.pick(&["a", "k", "opt"]); self.p(an); self.mvar(false); }
                    1 => { self.feat("named-arg-name-mvar"); self.mvar(false); }
                    2 => { self.feat("named-arg-name-call"); self.p("%"); let m = self.pick(CALLNAMES); self.p(m); }
                    3 if self.u.coin(1, 3) => { self.feat("named-arg-name-call"); self.p("%"); let m = self.pick(CALLNAMES); self.p(m); if self.u.coin(1, 2) { self.mvar(false); } else { self.p("%"); let m = self.pick(CALLNAMES); self.p(m); } }
                    3 => { self.feat("named-arg-name-call"); let an = self.pick(&["pre", "k_"]); self.p(an); self.p("%"); let m = self.pick(CALLNAMES); self.p(m); if self.u.coin(1, 3) { self.p("()"); } }
                    4 => { self.feat("keyword-spelled-name"); let an = self.pick(KWNAMES); self.p(an); }
                    _ => { let an = self.pick(IDENTS); let an = if an.is_ascii() { an } else { "k" }; self.p(an); }
                }
                self.ows(); self.mark("=", MK::Delim("ASSIGN", false)); self.ows();
            }
            self.tp();
            self.arg_value(true);
            self.tp();
        }
        self.depth -= 1;
        if n == 0 { self.ows(); }
        self.tp();
        self.mark(")", MK::Delim("RPAREN", false));
    }
    // a macro argument value. top_comma_terminates: whether a top-level comma would end the value (so we never emit one unmasked)
    fn arg_value(&mut self, _top: bool) {
        if self.u.coin(1, 12) {
            // a value that starts with a quoted string is a value, not a name: an '=' after it is text
            self.feat("string-then-equals-in-value");
            let q = self.pick(&["\"&p\"", "'q'", "\"s\"", "\"%f(a,b)\"", "\"a=b\"", "'it''s'"]); self.p(q);
            let mid = self.pick(&["y", "", " ", "&v", "%nm", " k ", "_1"]); self.p(mid);
            self.mark("=", MK::Masked); let w = self.pick(&["1", "x", "", " 2"]); self.p(w); self.tp();
            return;
        }
        let n = self.u.below(4);
        self.arg_pieces(n);
        // a literal '%' as the last character of the value: the delimiter that follows must still be seen
        if self.u.coin(1, 8) { self.feat("literal-percent-before-delimiter"); let w = self.pick(&["5%", "x %", "95 %", "%", "a&", "b &&", "&"]); if self.out.ends_with(['%', '&']) { self.p(" "); } self.p(w); self.tp(); }
    }
    fn arg_pieces(&mut self, n: usize) {
        for _ in 0..n {
            self.tp();
            match if self.depth > 5 { self.u.below(3) } else { self.u.below(12) } {
                0 | 1 => { let w = self.pick(WORDS); self.p(w); self.tp(); }
                2 => { let ws = self.pick(&[" ", " ", "\n", "\t"]); self.p(ws); let w = self.pick(WORDS); self.p(w); self.tp(); }
                3 => { match self.u.below(8) { 0 => { self.feat("macro-comment-in-arg"); self.p("%*c,=);"); } 1 => { self.feat("literal-percent"); let w = self.pick(&["50% ", "% ", "a%\n"]); self.p(w); } _ => self.mvar(true) } }
                4 => self.paren_group(),
                5 if self.u.coin(1, 8) => { self.str_with_stat(); self.p(" "); }
                5 => { self.feat("quoted-in-arg"); let q = self.u.coin(1, 2); self.p(if q { "'" } else { "\"" }); self.p("s"); self.tp(); if !q && self.u.coin(1, 3) { self.mvar(true); self.tp(); } self.mark(",", MK::Masked); if self.u.coin(1, 2) { self.p("("); } self.mark(")", MK::Masked); self.mark("=", MK::Masked); if self.u.coin(1, 4) { self.p("(("); } self.p(if q { "' " } else { "\" " }); }
                6 => { self.d_inc(); self.user_call(2); self.depth -= 1; self.p(" "); let w = self.pick(WORDS); self.p(w); }
                7 => { self.d_inc(); self.builtin_call(2); self.depth -= 1; }
                8 if self.u.coin(1, 3) => { self.feat("bare-call-then-colon-in-value"); let w = self.pick(&["a", "", "x "]); self.p(w); self.p("%"); let m = self.pick(CALLNAMES); self.p(m); let t = self.pick(&[":", ":b", " : c", ":1"]); self.p(t); self.tp(); } // not a label: labels exist at statement level only
                8 => { self.p("="); let w = self.pick(WORDS); self.p(w); } // '=' inside value text is just text (after first token / when not a name)
                9 => { let s = self.pick(&["1", "42", "3.5"]); self.p(s); }
                10 => { if self.u.coin(1, 2) { self.p("/"); let w = self.pick(WORDS); self.p(w); } else { self.feat("comment-in-value"); let w = self.pick(WORDS); self.p(w); self.mark("/*c,=;)(*/", MK::HiddenWs); let w = self.pick(WORDS); self.p(w); self.tp(); } }
                _ => { self.d_inc(); self.stat_in_value(); self.depth -= 1; }
            }
        }
    }
    // a balanced parenthesised group inside a value: commas, '=' and ';' in it are text, also after sub-tokens
    fn paren_group(&mut self) {
        self.feat("nested-parens"); self.gopen(); let n = 1 + self.u.below(4);
                    for _ in 0..n { match self.u.below(8) {
                        0 => { let w = self.pick(WORDS); self.p(w); self.tp(); }
                        1 => { self.feat("masked-after-subtoken"); self.mvar(true); }
                        2 => { self.feat("masked-after-subtoken"); let q = self.u.coin(1, 2); self.p(if q { "'s' " } else { "\"s\" " }); }
                        3 => { self.feat("masked-after-subtoken"); self.p("/*c*/"); }
                        4 => { self.feat("masked-after-subtoken"); self.d_inc(); self.user_call(2); self.depth -= 1; if !self.out.ends_with(')') { self.p(" w"); continue; } }
                        5 => { self.gopen(); self.p("q"); self.tp(); self.mark(",", MK::Masked); self.p("r"); self.tp(); self.gclose(); }
                        6 => { self.p(" "); }
                        _ => { self.p("z"); self.tp(); }
                    }
                    match self.u.below(4) { 0 => self.mark(",", MK::Masked), 1 => self.mark("=", MK::Masked), 2 => self.mark(";", MK::Masked), _ => {} } }
                    self.gclose();
    }
    // an argument of a built-in: words, macro variables, strings, parenthesised groups, nested calls (never a top-level comma)
    fn bvalue(&mut self) {
        if self.depth > 5 || self.u.coin(1, 2) { return self.simple_value(); }
        self.feat("rich-builtin-arg");
        let n = 1 + self.u.below(3);
        for _ in 0..n {
            match self.u.below(8) {
                0 | 1 => { let w = self.pick(WORDS); self.p(w); self.tp(); }
                2 => self.mvar(true),
                3 | 4 => self.paren_group(),
                5 if self.u.coin(1, 3) => { self.feat("semicolon-in-builtin-argument"); let w = self.pick(&["a", "", " "]); self.p(w); self.mark(";", MK::Masked); if self.u.coin(1, 2) { self.p("b"); } }
                5 => { let q = self.u.coin(1, 2); self.p(if q { "'" } else { "\"" }); self.p("|"); self.mark(",", MK::Masked); self.mark(")", MK::Masked); self.p(if q { "' " } else { "\" " }); }
                6 => { self.d_inc(); self.builtin_call(2); self.depth -= 1; }
                _ => { self.d_inc(); self.user_call(2); self.depth -= 1; if !self.out.ends_with(')') { self.p(" w"); } }
            }
        }
        if self.u.coin(1, 8) { self.feat("literal-percent-before-delimiter"); self.p(" 5%"); self.tp(); }
    }
    // a macro statement written inside an argument value ("inline macro statements in macro calls" of the lexer's tests):
    // its own '=' and ';' are delimiter tokens, the text around it stays argument text
    fn stat_in_value(&mut self) {
        self.feat("stat-in-arg");
        match self.u.below(7) {
            0 | 1 => self.let_stmt(),
            2 => self.put_stmt(),
            3 => { self.feat("if-in-arg"); self.pk("%if"); self.rws(); self.stmt_eval_expr(); self.rgap_after_expr(); self.pk("%then"); self.rws(); if self.u.coin(1, 2) { self.let_stmt(); } else { self.do_in_value(); } }
            4 | 5 => self.do_in_value(),
            _ => { match self.u.below(4) { 0 => { self.pk("%return"); self.ows(); self.del_mark(";", "SEMI", "MissingExpectedSemiOrEOF", false); } 1 => { self.pk("%goto"); self.rws(); self.p("done"); self.ows(); self.mark(";", MK::Delim("SEMI", false)); } 2 => { self.pk("%local"); self.rws(); self.name_expr(); self.mark(";", MK::Delim("SEMI", false)); } _ => { self.p("%* c,=);"); } } }
        }
    }
    fn do_in_value(&mut self) {
        self.feat("do-in-arg"); self.pk("%do");
        if self.u.coin(1, 3) { self.rws(); self.name_expr(); self.ows(); self.del_mark("=", "ASSIGN", "MissingExpectedAssign", false); self.ows(); self.stmt_eval_expr(); self.rgap_after_expr(); self.pk("%to"); self.rws(); self.stmt_eval_expr(); self.gap_after_expr(); self.mark(";", MK::Delim("SEMI", false)); }
        else { self.ows(); self.mark(";", MK::Delim("SEMI", false)); }
        let n = self.u.below(3);
        for _ in 0..n { match self.u.below(4) { 0 => { self.p(" "); let w = self.pick(WORDS); self.p(w); self.p(" "); } 1 => { self.p(" "); self.mvar(true); self.p(" "); } 2 => self.let_stmt(), _ => self.put_stmt() } }
        self.pk("%end"); self.ows(); self.del_mark(";", "SEMI", "MissingExpectedSemiOrEOF", false);
    }
    pub fn builtin_call(&mut self, _ctx: usize) {
        let k = if self.depth > 4 { 0 } else { self.u.below(12) };
        self.builtin_k(k);
    }
    // a built-in whose result may form (part of) a macro name: everything but the quoting functions
    fn name_builtin(&mut self) {
        self.feat("name-expr-builtin");
        let k = [0, 2, 3, 5, 6, 6, 9][self.u.below(7)];
        self.d_inc(); self.builtin_k(k); self.depth -= 1;
    }
    fn builtin_k(&mut self, k: usize) {
        let saved_stmt = self.in_stmt_expr;
        self.in_stmt_expr = false;
        self.builtin_k_inner(k);
        self.in_stmt_expr = saved_stmt;
    }
    fn builtin_k_inner(&mut self, k: usize) {
        self.feat("builtin");
        self.d_inc();
        match k {
            0 => { self.pk("%eval"); self.ows(); self.del_mark("(", "LPAREN", "MissingExpectedLParen", false); self.ows(); self.eval_expr(false, false); self.ows_after_expr(); self.mark(")", MK::Delim("RPAREN", false)); }
            1 => { self.feat("sysevalf"); self.pk("%sysevalf"); self.ows(); self.del_mark("(", "LPAREN", "MissingExpectedLParen", false); self.ows(); self.eval_expr(true, false); if self.u.coin(1, 3) { self.gap_after_expr(); self.mark(",", MK::Delim("COMMA", false)); self.ows(); self.p("boolean"); } self.mark(")", MK::Delim("RPAREN", false)); }
            2 => { self.feat("scan"); let nm = self.pick(&["%scan", "%qscan", "%SCAN", "%kscan", "%qkscan", "%QKScan"]); self.p(nm); self.ows(); self.del_mark("(", "LPAREN", "MissingExpectedLParen", false); self.ows(); self.bvalue(); let close_anchor_needed = self.out.len(); let _ = close_anchor_needed; let di = self.dels.len(); self.del_mark(",", "COMMA", "MissingExpectedComma", false); self.ows(); self.eval_expr(false, true); if self.u.coin(1, 2) { self.gap_after_expr(); self.mark(",", MK::Delim("COMMA", false)); self.ows(); if self.u.coin(1, 2) { self.p("|"); self.mark("(", MK::Masked); self.p(" "); self.mark(")", MK::Masked); } else { self.bvalue(); } if self.u.coin(1, 2) { self.feat("scan-modifiers"); self.mark(",", MK::Delim("COMMA", false)); self.ows(); if self.u.coin(1, 2) { self.p("m"); } else { self.bvalue(); } } self.dels.remove(di); } else { let a = self.anchor(); self.dels[di].at_mark = Some(a); } self.mark(")", MK::Delim("RPAREN", false)); }
            3 => { self.feat("substr"); let nm = self.pick(&["%substr", "%qsubstr", "%ksubstr", "%qksubstr", "%SUBSTR", "%QKsubstr"]); self.p(nm); self.ows(); self.del_mark("(", "LPAREN", "MissingExpectedLParen", false); self.ows(); self.bvalue(); let di = self.dels.len(); self.del_mark(",", "COMMA", "MissingExpectedComma", false); self.ows(); self.eval_expr(false, true); if self.u.coin(1, 2) { self.gap_after_expr(); self.mark(",", MK::Delim("COMMA", false)); self.ows(); self.eval_expr(false, true); self.dels.remove(di); } else { let a = self.anchor(); self.dels[di].at_mark = Some(a); } self.mark(")", MK::Delim("RPAREN", false)); }
            4 => { self.feat("one-arg-masking"); let nm = self.pick(&["%upcase", "%length", "%index", "%quote", "%bquote", "%nrbquote", "%superq", "%unquote", "%symexist", "%sysget", "%qupcase", "%qlowcase", "%nrquote", "%kupcase", "%klength", "%kindex", "%qkupcase", "%qklowcase", "%sysmexecname", "%sysprod", "%symglobl", "%symlocal", "%sysmacexec", "%sysmacexist", "%UPCASE", "%Length"]); self.p(nm); self.ows(); self.del_mark("(", "LPAREN", "MissingExpectedLParen", false); self.ows(); self.bvalue(); if self.u.coin(1, 2) { self.mark(",", MK::Masked); self.p("t"); if self.u.coin(1, 3) { self.d_inc(); self.builtin_call(2); self.depth -= 1; } } self.mark(")", MK::Delim("RPAREN", false)); }
            5 => { self.feat("multi-arg-builtin"); let nm = self.pick(&["%cmpres", "%left", "%trim", "%lowcase", "%qtrim", "%datatyp", "%qcmpres", "%kcmpres", "%qkcmpres", "%qleft", "%kleft", "%qkleft", "%ktrim", "%qktrim", "%klowcase", "%Trim"]); self.p(nm); self.ows(); self.del_mark("(", "LPAREN", "MissingExpectedLParen", false); self.ows(); self.bvalue(); let extra = self.u.below(3); for _ in 0..extra { self.mark(",", MK::Delim("COMMA", false)); self.ows(); self.bvalue(); } self.mark(")", MK::Delim("RPAREN", false)); }
            6 => { self.feat("sysfunc"); let nm = self.pick(&["%sysfunc", "%qsysfunc", "%SysFunc"]); self.p(nm); self.ows(); self.del_mark("(", "LPAREN", "MissingExpectedLParen", false); self.ows(); let f = self.pick(&["cats", "putn", "max", "today", "substr"]); self.p(f); self.ows(); self.del_mark("(", "LPAREN", "MissingExpectedLParen", false); self.ows(); let n = self.u.below(3); for i in 0..n { if i > 0 { self.gap_after_expr(); self.mark(",", MK::Delim("COMMA", false)); self.ows(); } self.eval_expr(true, true); } self.mark(")", MK::Delim("RPAREN", false)); self.ows(); if self.u.coin(1, 3) { self.mark(",", MK::Delim("COMMA", false)); self.ows(); self.p("best12."); } self.mark(")", MK::Delim("RPAREN", false)); }
            7 | 8 => { self.str_call(); }
            9 => { self.feat("verify-named"); let nm = self.pick(&["%verify", "%kverify", "%verify", "%VERIFY", "%compstor", "%validchs"]); self.p(nm); self.ows(); self.del_mark("(", "LPAREN", "MissingExpectedLParen", false); self.ows(); if self.u.coin(1, 3) { self.feat("builtin-named-arg"); self.p("pathname"); self.ows(); self.mark("=", MK::Delim("ASSIGN", false)); self.ows(); } self.simple_value(); self.mark(",", MK::Delim("COMMA", false)); self.ows(); self.simple_value(); self.mark(")", MK::Delim("RPAREN", false)); }
            10 => { self.p("%sysmexecdepth "); }
            _ => { self.user_call(2); if !self.out.ends_with(')') { self.p(" w"); } }
        }
        self.depth -= 1;
    }
    fn ows_after_expr(&mut self) { if self.u.coin(1, 4) { let w = self.pick(&[" ", " ", " ", "\n", "\t", "\r", "\r\n", "  ", " \r", "\u{a0}", "\u{c}"]); self.mark(w, MK::HiddenWs); } }
    fn gap_after_expr(&mut self) { self.ows_after_expr(); }
    // the gap between the end of an expression and the %then / %to / %by that ends it: optional after a character that cannot
    // continue a name
    fn rgap_after_expr(&mut self) { if self.out.ends_with([')', '"', '\'']) && self.u.coin(1, 3) { self.feat("keyword-glued-to-expression-end"); return; } let w = self.pick(&[" ", " ", "\n", "  ", "\r", "\r\n", "\t"]); self.mark(w, MK::HiddenWs); }
    // the gap after %if / %to / %by: may be left out when the expression starts with a character that cannot continue a name
    fn kgap(&mut self) { if self.u.coin(1, 5) { self.feat("expression-glued-to-keyword"); self.force_nonword = true; } else { self.rws(); } }
    // the gap after %then / %else before a statement that starts with '%'
    fn tgap(&mut self) { if self.u.coin(1, 4) { self.feat("statement-glued-to-then-else"); } else { self.rws(); } }
    fn simple_value(&mut self) { match self.u.below(5) { 0 => { let w = self.pick(WORDS); self.p(w); } 1 => self.mvar(true), 2 => { let w = self.pick(WORDS); self.p(w); self.p(" "); let w = self.pick(WORDS); self.p(w); } 3 => { self.p("a"); self.gopen(); self.p("b"); self.tp(); self.mark(",", MK::Masked); self.p("c"); self.tp(); self.gclose(); self.p("d"); self.tp(); } _ => { self.mvar(true); let w = self.pick(WORDS); self.p(w); } } }
    fn str_call(&mut self) {
        self.feat("str-call");
        let nr = self.u.coin(1, 3);
        self.p(if nr { "%nrstr" } else { "%str" }); self.ows();
        self.del_mark("(", "LPAREN", "MissingExpectedLParen", true);
        let st = self.out.len();
        let n = self.u.below(5);
        if nr && self.u.coin(1, 4) { self.masked_call_text(); }
        for _ in 0..n {
            self.tp();
            match self.u.below(10) {
                0 if self.u.coin(1, 3) => { self.feat("str-literal-amp-mid-text"); let w = self.pick(WORDS); self.p(w); let a = self.pick(&["&", " &", "&&", "& "]); self.p(a); }
                0 | 1 => { let w = self.pick(WORDS); self.p(w); self.tp(); }
                2 => self.p(" "),
                3 => { self.feat("str-pct-quote"); let q = self.pick(&["%'", "%\"", "%%", "%(", "%)"]); self.p(q); }
                4 => { self.mark(",", MK::Masked); }
                5 => { self.mark(";", MK::Masked); }
                6 => { self.gopen(); if !nr && self.u.coin(1, 3) { self.feat("call-inside-str-group"); self.d_inc(); self.user_call(2); self.depth -= 1; if !self.out.ends_with(')') { self.p(" w"); } } else { self.p("in"); } self.tp(); self.mark(",", MK::Masked); self.p("ner"); self.tp(); self.gclose(); }
                7 => { if nr { self.p("&amp %mac"); } else { self.mvar(true); } }
                8 if nr && self.u.coin(1, 2) => { match self.u.below(3) { 0 => self.p("'q;'"), 1 => self.p("/*c,)*/"), _ => {} } self.masked_call_text(); }
                8 => { self.feat("str-inner-tokens"); match self.u.below(6) { 0 => self.p("'q;' "), 1 => self.p("\"r,\" "), 2 => self.p("/"), 3 => self.p("/*c,)*/"), 4 => self.p("\n"), _ => { if nr { self.p("%"); self.p(" "); } else { self.d_inc(); self.user_call(2); self.depth -= 1; if !self.out.ends_with(')') { self.p(" w"); } } } } }
                9 if !nr && self.u.coin(1, 3) => { self.feat("stat-in-str"); self.d_inc(); if self.u.coin(1, 2) { self.str_with_stat(); } else if self.u.coin(1, 2) { self.let_stmt(); } else { self.put_stmt(); } self.depth -= 1; }
                _ => { self.mark("=", MK::Masked); }
            }
        }
        self.str_regions.push((st, self.out.len()));
        self.mark(")", MK::Delim("RPAREN", true));
    }
    // inside %nrstr a macro call is masked: '%inner(a,b=c)' is plain text, none of its characters is a delimiter token
    fn masked_call_text(&mut self) {
        self.feat("masked-call-in-nrstr");
        let nm = self.pick(&["%inner", "%m", "%upcase", "%let x", "%eval"]); self.p(nm);
        self.mark("(", MK::Masked); self.open_parens += 1; self.open_text += 1;
        self.p("a"); self.tp(); self.mark(",", MK::Masked); self.p("b"); if self.u.coin(1, 2) { self.mark("=", MK::Masked); self.p("c"); }
        self.mark(")", MK::Masked); self.open_parens = self.open_parens.saturating_sub(1); self.open_text = self.open_text.saturating_sub(1);
    }
    fn del_mark(&mut self, s: &'static str, tok: &'static str, err: &'static str, hidden: bool) { let off = self.out.len(); self.mark(s, MK::Delim(tok, hidden)); self.dels.push(Deletable { off, len: s.len(), err, tok, at_mark: None }); }

    // ---------- eval expressions
    // float: sysevalf-like numeric mode; comma_term: a top-level comma terminates (so don't emit)
    fn eval_expr(&mut self, float: bool, comma_term: bool) {
        self.feat("eval-expr");
        self.d_inc();
        let _ = float;
        if comma_term && self.depth < 5 && self.u.coin(1, 10) {
            // a parenthesised group with a comma inside an expression argument: the comma does not end the argument
            self.feat("comma-in-expression-parens");
            let f = self.pick(&["max", "min", ""]); self.p(f);
            // (what is inside such a group is argument text for the lexer: no operand or whitespace marks)
            self.mark("(", MK::Op("LPAREN")); let w = self.pick(&["1", "a", "&v", "x y", "0"]); self.p(w); self.mark(",", MK::Masked); let w = self.pick(&["2", " b", "&v.", "0", " 0"]); self.p(w); self.mark(")", MK::Op("RPAREN"));
            self.depth -= 1; self.last_int = false;
            return;
        }
        let n = 1 + if self.depth > 5 { 0 } else { self.u.below(3) };
        let mut prev_int = false;
        for i in 0..n {
            if i > 0 { if self.u.coin(1, 2) { let w = self.pick(&[" ", "\n", "  "]); self.mark(w, MK::HiddenWs); } self.eval_op(); self.ows(); }
            // a mnemonic operator written without a following blank: what follows must not start with a name character
            let glued = (i > 0 || self.force_nonword) && self.out.ends_with(|c: char| c.is_alphanumeric());
            self.force_nonword = false;
            if glued { self.feat("mnemonic-glued-right"); }
            if self.u.coin(1, 8) { let o = if glued { self.pick(&["-", "+", "^", "~"]) } else { self.pick(&["-", "+", "not ", "^", "~", "NOT "]) }; let t = match o { "-" => "MINUS", "+" => "PLUS", "not " | "NOT " => "KwNOT", _ => "NOT" }; let l = o.trim_end().len(); let off = self.out.len(); self.p(o); self.marks.push(Mark { off, len: l, kind: MK::Op(t) }); }
            self.tp();
            prev_int = self.eval_operand(float, glued && self.out.ends_with(|c: char| c.is_alphanumeric()));
            self.tp();
        }
        self.depth -= 1;
        self.last_int = prev_int;
    }
    // an expression that belongs to a statement head (%if condition, iterative %do bounds): a ';' would end it
    fn stmt_eval_expr(&mut self) { let s = self.in_stmt_expr; self.in_stmt_expr = true; self.eval_expr(false, false); self.in_stmt_expr = s; }
    fn eval_op(&mut self) {
        let (s, t) = [("+", "PLUS"), ("-", "MINUS"), ("*", "STAR"), ("/", "FSLASH"), ("**", "STAR2"), ("<", "LT"), (">", "GT"), ("<=", "LE"), (">=", "GE"), ("=", "ASSIGN"), ("^=", "NE"), ("~=", "NE"), ("\u{ac}=", "NE"), ("ne", "KwNE"), ("EQ", "KwEQ"), ("lt", "KwLT"), ("Gt", "KwGT"), ("le", "KwLE"), ("ge", "KwGE"), ("and", "KwAND"), ("OR", "KwOR"), ("in", "KwIN"), ("#", "HASH"), ("&", "AMP"), ("|", "PIPE"), ("%=", "ASSIGN"), ("%^=", "NE"), ("%~=", "NE")][self.u.below(28)];
        let wordy = s.chars().all(|c| c.is_ascii_alphabetic());
        // a mnemonic is recognized after whitespace or any character that cannot continue a name (')', '.', a quote, ...)
        // (not directly after a closing quote: 'q'ne would read the n as a name-literal suffix - the lexer's documented suffix rule)
        if wordy && self.out.ends_with(|c: char| c.is_alphanumeric() || c == '_' || c == '\'' || c == '"') { self.p(" "); }
        else if wordy && !self.out.ends_with([' ', '\n', '\t', '/']) { if self.u.coin(2, 3) { self.p(" "); } else { self.feat("mnemonic-glued-left"); } }
        if wordy {
            // every letter of a mnemonic in either case
            let mut sp = String::new();
            for c in s.chars() { if self.u.coin(1, 3) { sp.push(c.to_ascii_uppercase()); } else if self.u.coin(1, 2) { sp.push(c.to_ascii_lowercase()); } else { sp.push(c); } }
            self.mark(&sp, MK::Op(t));
        } else {
            self.mark(s, MK::Op(t));
        }
        if s == "&" || (wordy && self.u.coin(3, 4)) { self.p(" "); }
    }
    fn eval_operand(&mut self, float: bool, nonword: bool) -> bool {
        let l0 = self.marks.len();
        let k = if self.depth > 6 { self.u.below(3) } else { self.u.below(10) };
        let k = if nonword { match k { 0 | 1 | 3 | 7 => 2, 5 | 6 if self.depth > 6 => 2, o => o } } else { k };
        if !nonword && self.open_calls > 0 && !self.in_stmt_expr && self.u.coin(1, 14) {
            // inside the parentheses of a call / built-in a ';' is text like any other character
            self.feat("semicolon-in-expression-argument");
            let w = self.pick(&["a", "", "x1"]); self.p(w); self.mark(";", MK::Masked); if self.u.coin(1, 2) { self.p("b"); }
            return false;
        }
        if !nonword && self.u.coin(1, 16) {
            // an operand that starts with a literal '%' (no name, no quotable operator after it): it is text, and the
            // delimiter that ends the operand (a top-level comma, ')', an operator) must still be seen after it
            self.feat("literal-percent-starts-operand");
            self.p("%");
            if self.u.coin(1, 2) { if self.u.coin(1, 2) { self.p(" "); } let dg = self.pick(&["5", "1.5", "20", "0"]); self.mark(dg, MK::NotInt); }
            else { self.p(" "); let w = self.pick(&["b", "x1", "one", "rate"]); self.mark(w, MK::Word); }
            return false;
        }
        match k {
            0 | 1 => { let s = self.pick(&["0", "1", "42", "100", "0ffx", "007", "10", "00", "1Ax", "0FFX", "999999999"]); self.mark(s, MK::IntOperand); self.tp(); }
            2 => {
                self.mvar(true);
                if self.u.coin(1, 6) {
                    // an operand of several pieces: the blank after the reference and what follows belong to it
                    self.feat("operand-pieces-after-mvar");
                    self.p(" ");
                    match self.u.below(3) { 0 => { let dg = self.pick(&["1", "20", "0"]); self.mark(dg, MK::NotInt); } 1 => { let w = self.pick(&["b", "x1", "one"]); self.mark(w, MK::Word); } _ => self.mvar(true) }
                }
            }
            3 => { let w = self.pick(&["abc", "x1", "txt", "é", "a b c", "1 2 3", "x.y", "a_1 b", "rate", "size", "SCALE", "value", "base", "type", "and1", "or_x", "nex", "eq1", "inx", "NOTE", "gex", "lte", "one", "line", "online", "engine", "alone", "gone", "nine", "Andorra", "legend", "origin", "Anna Lee", "no one", "x a", "abc all", "go online", "a line", "1 e", "an angel", "in1 a"]); if w.chars().all(|c| c.is_ascii_alphanumeric() || c == '_') { self.mark(w, MK::Word); } else if w.chars().all(|c| c.is_ascii_alphanumeric() || c == '_' || c == ' ') && w.contains(|c: char| c.is_ascii_alphabetic()) && !w.starts_with(|c: char| c.is_ascii_digit()) {
                // several words: each is plain text (the blanks between them belong to the operand)
                let mut first = true; for piece in w.split(' ') { if !first { self.p(" "); } first = false; self.mark(piece, MK::Word); } } else { self.p(w); } }
            4 => { self.feat("eval-parens"); self.mark("(", MK::Op("LPAREN")); self.ows(); self.eval_expr(float, false); self.gap_after_expr(); self.mark(")", MK::Op("RPAREN")); }
            5 => { self.user_call(2); self.p(" "); }
            6 => { self.d_inc(); self.builtin_call(2); self.depth -= 1; }
            7 => { if float { let s = self.pick(&["1.5", "2.", ".25", "1e3", "2.5E-1"]); self.p(s); } else { self.mark("7", MK::IntOperand); } }
            8 if !nonword && self.u.coin(1, 2) => { self.feat("composite-operand"); let dg = self.pick(&["1", "20", "0"]); self.mark(dg, MK::NotInt); let f = self.pick(&["&&a", "&a", "&a.", "&a&b", "&&a&i"]); self.p(f); }
            8 => { self.p("'q'"); }
            _ => { self.p("\"d"); self.tp(); self.mvar(true); self.tp(); self.p("\""); }
        }
        self.marks.len() == l0 + 1 && matches!(self.marks[l0].kind, MK::IntOperand)
    }

    // ---------- statements
    fn text_expr(&mut self) { // semi-terminated macro text expression
        let n = self.u.below(5);
        for i in 0..n {
            if i > 0 && self.u.coin(1, 2) { let ws = self.pick(&[" ", " ", "\n", " \n "]); self.p(ws); }
            match if self.depth > 5 { self.u.below(3) } else { self.u.below(10) } {
                0 => { let w = self.pick(WORDS); self.p(w); }
                1 => { if self.u.coin(1, 4) { self.feat("literal-percent"); self.p("50% "); } else { let w = self.pick(WORDS); self.p(w); } }
                2 if self.u.coin(1, 4) => { self.feat("literal-percent-before-non-name-char"); let s = self.pick(&["%*x", "a%*b", "50 %* 2", "%-", "%1", "%%", "%.", "%=", "&*", "&1", "&-x"]); self.p(s); self.p(" "); }
                2 => { let s = self.pick(&["1", "=", "+", ",", "(z)", "/", "a=b", "%", "&", "* x", "-"]); self.p(s); self.p(" "); }
                3 => self.mvar(true),
                4 => { self.user_call(0); if !self.out.ends_with(')') { self.p(" w"); } }
                5 => self.builtin_call(0),
                6 => { self.str_lit(); self.p(" "); }
                7 => self.p("/* c; */"),
                _ => { let w = self.pick(WORDS); self.p(w); }
            }
        }
        if self.u.coin(1, 10) { self.feat("literal-trigger-char-before-semi"); let w = self.pick(&["5%", "x %", "a&", "b &&", "%", "&"]); if self.out.ends_with(['%', '&']) { self.p(" "); } self.p(w); }
    }
    fn name_expr(&mut self) { match self.u.below(9) { 8 => { self.feat("name-expr-bare-calls"); self.p("%"); let m = self.pick(CALLNAMES); self.p(m); if self.u.coin(1, 2) { self.p("%"); let m = self.pick(CALLNAMES); self.p(m); } } 6 => { self.name_builtin(); if self.u.coin(1, 2) { self.p("_s"); } } 7 => { let v = self.pick(MVARS); self.p(v); self.name_builtin(); } 5 => { self.feat("name-expr-call"); self.p("%"); let m = self.pick(CALLNAMES); self.p(m); self.p("(a)"); if self.u.coin(1, 2) { self.p("_s"); } } 0 | 1 => { let v = self.pick(MVARS); self.p(v); } 2 => { let v = self.pick(MVARS); self.p(v); self.mvar(false); } 3 => { self.mvar(false); } _ => { let v = self.pick(MVARS); self.p(v); self.p("_"); self.p("&i."); self.p("x"); } } }
    fn let_stmt(&mut self) { self.feat("let"); self.pk("%let"); self.rws(); self.name_expr(); self.ows(); self.del_mark("=", "ASSIGN", "MissingExpectedAssign", false); if self.u.coin(1, 6) { self.quote_call(); } else { self.ows(); } self.text_expr(); self.mark(";", MK::Delim("SEMI", false)); }
    // a macro quoting function directly after the '=' (it cannot continue a name expression, so a left-out '=' is still
    // diagnosed right after the name even without a blank in its place)
    fn quote_call(&mut self) {
        self.feat("quote-call-after-assign");
        let nm = self.pick(&["%str", "%nrstr", "%quote", "%nrquote", "%bquote", "%nrbquote", "%superq", "%BQUOTE", "%Str", "%NRBQUOTE", "%SuperQ"]);
        self.p(nm);
        let hidden = nm.to_ascii_lowercase() == "%str" || nm.to_ascii_lowercase() == "%nrstr";
        self.mark("(", MK::Delim("LPAREN", hidden)); let w = self.pick(&["b", "a b", "x1", "v"]); self.p(w); self.tp(); self.mark(")", MK::Delim("RPAREN", hidden));
    }
    fn put_stmt(&mut self) { self.feat("put"); self.pk("%put"); self.rws(); if self.u.coin(1, 6) { let t = self.pick(&["_all_", "_user_", "_LOCAL_", "NOTE: done", "ERROR- bad value", "WARNING: x=", "&=v", "&=v &=v"]); self.p(t); self.p(" "); } self.text_expr(); self.mark(";", MK::Delim("SEMI", false)); }
    fn comment_stmt(&mut self) {
        self.feat("comment-stmt");
        // outside macro definitions a '*' statement is a comment whatever macro code it mentions
        if self.in_macro == 0 && self.u.coin(1, 4) { self.feat("star-comment-with-macro-code"); let c = self.pick(&["* %put it's on;", "* x %let y=1;", "* call %m(a;", "*%do i=1 %to 3;", "* &v %end \"q;", "* %if a %then b;"]); self.p(c); return; }
        if self.u.coin(1, 5) {
            // '%' and '&' that do not start macro code (no name directly after them): the statement stays a comment,
            // also inside a macro definition, and the quote in it is not a string
            self.feat("star-comment-with-literal-trigger-char");
            let c = self.pick(&["* don't use more than 50% of the rows;", "* 25% wider & 'x;", "* a %-share's;", "* 100%;", "* x & y's;", "* 5 %1 it's;", "* a&-b %(c) \"d;", "* 50 % of 'em;"]); self.p(c);
            return;
        }
        match self.u.below(4) { 0 => self.p("* a comment, with 'stuff;"), 1 => self.p("%* macro comment 'with ; quoted' \"and ;\";"), 2 => self.p("/* block ; comment */"), _ => self.p("*;") }
    }
    fn datalines_block(&mut self) { if self.in_macro > 0 { return self.open_stmt(); } self.feat("datalines"); if !self.out.trim_end_matches(|c: char| c.is_whitespace()).ends_with(';') && !self.out.is_empty() { self.p(";"); } match self.u.below(4) { 0 => self.p("datalines;\n1 2 3\nabc def\n;"), 1 => self.p("cards ;\n;"), 2 => self.p("DATALINES4;\na;b;;;c\n'x\n;;;;"), _ => self.p("lines;\n%notmacro &x /* not comment\n;") } }
    fn if_stmt(&mut self) {
        self.feat("if"); self.pk("%if"); self.kgap(); self.stmt_eval_expr(); self.rgap_after_expr(); self.pk("%then");
        match self.u.below(6) { 0 | 1 | 2 => { self.tgap(); self.do_block(); } 3 => { self.tgap(); self.let_stmt(); } 4 => { self.tgap(); self.put_stmt(); } _ => { self.rws(); self.simple_macro_stmt(); } }
        if self.u.coin(1, 3) { self.feat("else"); if self.u.coin(3, 4) { self.plain_ws(); } self.pk("%else"); match self.u.below(6) { 0 | 1 => { self.tgap(); self.do_block(); } 2 if self.depth < 4 => { self.feat("else-if"); self.tgap(); self.d_inc(); self.if_stmt(); self.depth -= 1; } 3 => { self.tgap(); self.let_stmt(); } _ => { self.rws(); self.simple_macro_stmt(); } } }
    }
    fn simple_macro_stmt(&mut self) { match self.u.below(5) { 0 => self.let_stmt(), 1 => self.put_stmt(), 2 => self.call_stmt(), 3 => { self.feat("builtin-as-statement"); self.d_inc(); self.builtin_call(0); self.depth -= 1; self.ows_no_paren(); self.p(";"); } _ => self.open_stmt() } }
    fn do_block(&mut self) {
        self.feat("do"); self.pk("%do");
        match self.u.below(5) {
            0 | 1 => { self.ows(); self.mark(";", MK::Delim("SEMI", false)); }
            2 => { self.feat("do-iter"); self.rws(); self.name_expr(); self.ows(); self.del_mark("=", "ASSIGN", "MissingExpectedAssign", false); self.ows(); self.stmt_eval_expr(); self.rgap_after_expr(); self.pk("%to"); self.kgap(); self.stmt_eval_expr(); if self.u.coin(1, 2) { self.rgap_after_expr(); self.pk("%by"); self.kgap(); self.stmt_eval_expr(); self.gap_after_expr(); self.mark(";", MK::Delim("SEMI", false)); } else if self.lenient && self.u.coin(1, 3) { self.feat("do-iter-while"); self.rgap_after_expr(); let k = self.pick(&["%while", "%until", "%WHILE"]); self.p(k); self.ows(); self.del_mark("(", "LPAREN", "MissingExpectedLParen", false); self.ows(); self.eval_expr(false, false); self.ows_after_expr(); self.mark(")", MK::Delim("RPAREN", false)); self.ows(); self.del_mark(";", "SEMI", "MissingExpectedSemiOrEOF", false); } else { self.gap_after_expr(); self.mark(";", MK::Delim("SEMI", false)); } }
            3 => { self.feat("do-while"); self.tgap(); self.pk("%while"); self.ows(); self.del_mark("(", "LPAREN", "MissingExpectedLParen", false); self.ows(); self.eval_expr(false, false); self.ows_after_expr(); self.mark(")", MK::Delim("RPAREN", false)); self.ows(); self.del_mark(";", "SEMI", "MissingExpectedSemiOrEOF", false); }
            _ => { self.feat("do-until"); self.tgap(); self.pk("%until"); self.ows(); self.del_mark("(", "LPAREN", "MissingExpectedLParen", false); self.ows(); self.eval_expr(false, false); self.ows_after_expr(); self.mark(")", MK::Delim("RPAREN", false)); self.ows(); self.del_mark(";", "SEMI", "MissingExpectedSemiOrEOF", false); }
        }
        self.body();
        self.pk("%end"); self.ows(); self.del_mark(";", "SEMI", "MissingExpectedSemiOrEOF", false);
    }
    fn macro_def(&mut self) {
        self.feat("macro-def"); self.pk("%macro"); self.rws(); let nm: String = if self.u.coin(1, 3) { self.rand_name() } else { self.pick(MNAMES).to_string() }; let nm = nm.as_str(); self.p(nm);
        if self.u.coin(2, 3) { self.ows(); self.mark("(", MK::Delim("LPAREN", false)); let n = self.u.below(4); for i in 0..n { if i > 0 { self.mark(",", MK::Delim("COMMA", false)); } self.ows(); let rn = self.rand_name(); let a = if self.u.coin(1, 4) { rn.as_str() } else if self.u.coin(1, 4) { self.feat("keyword-spelled-name"); self.pick(KWNAMES) } else { self.pick(&["p1", "arg", "_k", "ds", "calc_rolling_std_for_all_numeric", "output_dataset_name_with_prefix"]) }; self.p(a); self.ows(); if self.u.coin(1, 2) { self.feat("def-default"); self.mark("=", MK::Delim("ASSIGN", false)); self.ows(); if self.u.coin(2, 3) { self.arg_value(true); } } } if n == 0 { self.ows(); } self.mark(")", MK::Delim("RPAREN", false)); }
        if self.u.coin(1, 3) { self.ows(); let o = self.pick(&["/ des='x' minoperator", "/ store source", "/ parmbuff", "/ minoperator mindelimiter=','", "/ DES=\"a;b\" secure", "/store", "/ des='it''s'"]); self.p(o); }
        self.ows(); self.mark(";", MK::Delim("SEMI", false));
        self.in_macro += 1; self.body(); self.in_macro -= 1;
        self.pk("%mend"); if self.u.coin(1, 2) { self.rws(); self.p(nm); } self.ows(); self.mark(";", MK::Delim("SEMI", false));
    }
    fn call_stmt(&mut self) { self.user_call(0); if !self.out.ends_with(')') { /* argless */ } self.ows_no_paren(); self.p(";"); }
    fn ows_no_paren(&mut self) { if self.u.coin(1, 3) { self.p(" "); } }
    fn local_global(&mut self) { self.feat("local-global"); let k = self.pick(&["%local", "%global", "%LOCAL"]); self.p(k); self.rws(); if self.u.coin(1, 4) { let ro = self.pick(&["/ readonly ", "/ READONLY ", "/readonly "]); self.p(ro); self.name_expr(); self.ows(); self.del_mark("=", "ASSIGN", "MissingExpectedAssign", false); self.ows(); self.text_expr(); } else { let n = 1 + self.u.below(3); for i in 0..n { if i > 0 { self.p(" "); } self.name_expr(); } } self.mark(";", MK::Delim("SEMI", false)); }
    fn goto_label(&mut self) { self.feat("goto-label"); if self.u.coin(1, 2) { self.pk("%goto"); self.rws(); if self.u.coin(1, 4) { self.mvar(false); } else { let l = self.pick(&["done", "lbl1", "é_l"]); self.p(l); } self.ows(); self.p(";"); } else { if !self.out.is_empty() && !self.out.ends_with([';', '\n', ' ']) { self.p(" "); } let l = self.pick(&["%done", "%lbl1", "%next_step"]); self.p(l); self.ows(); self.p(":"); self.plain_ws(); self.simple_macro_stmt(); } }
    // free-form option text of the statement-option statements (lexed until the ';'): words, key=value, quoted strings,
    // macro variables, calls, slashes, numbers, comments
    fn opts_text(&mut self) {
        self.feat("statement-options-text");
        let n = 1 + self.u.below(4);
        for i in 0..n {
            if i > 0 { self.p(" "); }
            match self.u.below(10) {
                0 | 1 => { let w = self.pick(WORDS); self.p(w); }
                2 => { let k = self.pick(&["color", "rows", "des", "outfile", "lib"]); self.p(k); self.p("="); if self.u.coin(1, 2) { let w = self.pick(WORDS); self.p(w); } else { self.mvar(true); } }
                3 => self.p("'q;x'"),
                4 => { self.p("\"d "); self.mvar(true); self.p("\""); }
                5 => self.mvar(true),
                6 => { self.d_inc(); self.user_call(0); self.depth -= 1; if !self.out.ends_with(')') { self.p(" w"); } }
                7 if self.u.coin(1, 2) => { self.feat("statement-options-literal-trigger-char"); let x = self.pick(&["50%", "a%", "x&", "b&&"]); self.p(x); match self.u.below(6) { 0 => self.p("'q'"), 1 => self.p("=v"), 2 => self.p("/s"), 3 => self.p("/*c*/"), 4 => self.p("\"d\""), _ => {} } }
                7 => { let x = self.pick(&["#1", "@2", "5", "+3", "a/b"]); self.p(x); }
                8 => self.p("/*c;*/"),
                _ => { self.d_inc(); self.builtin_call(0); self.depth -= 1; }
            }
        }
    }
    fn misc_stat(&mut self) {
        self.feat("misc-stat");
        match self.u.below(9) {
            8 => {
                // a statement that ends in free text, directly followed by another macro statement: without its ';' the
                // following statement keyword is where the ';' is found missing
                self.feat("text-stat-then-macro-stat");
                match self.u.below(3) { 0 => { self.pk("%put"); self.rws(); self.p("done"); } 1 => { self.pk("%let"); self.rws(); self.p("a = b"); } _ => { self.pk("%sysexec"); self.rws(); self.p("ls"); } }
                // (blanks after free text belong to the text: no whitespace mark)
                if self.u.coin(1, 3) { self.p(" "); }
                self.del_mark(";", "SEMI", "MissingExpectedSemiOrEOF", false); self.ows();
                let k = self.pick(&["%return;", "%run;", "%list;", "%sysmstoreclear;", "%put x;", "%let q=1;", "%goto done;", "%abort;", "%local z;", "%global z;", "%RUN;", "%Run ;", "%symdel z;", "%if 1 %then %put x;", "%do; %end;"]);
                self.p(k);
            }
            0 => { self.pk("%return"); self.ows(); self.del_mark(";", "SEMI", "MissingExpectedSemiOrEOF", false); }
            1 => { self.pk("%symdel"); self.rws(); self.name_expr(); if self.u.coin(1, 2) { self.p(" "); self.name_expr(); } if self.u.coin(2, 3) { self.p(" / nowarn"); } self.ows(); self.p(";"); }
            2 => { self.pk("%sysexec"); self.rws(); self.p("ls -l /tmp"); self.p(";"); }
            3 => { self.pk("%syscall"); self.rws(); let f = self.pick(&["ranuni", "streaminit", "symput", "set"]); self.p(f); self.ows(); self.del_mark("(", "LPAREN", "MissingExpectedLParen", false); self.ows(); let n = 1 + self.u.below(3); for i in 0..n { if i > 0 { self.mark(",", MK::Delim("COMMA", false)); self.ows(); } match self.u.below(6) { 0 | 1 => self.mvar(true), 2 => { let w = self.pick(&["seed", "x", "abc"]); self.p(w); } 3 => { let w = self.pick(&["1", "42"]); self.mark(w, MK::IntOperand); } 4 => { self.feat("comma-in-expression-parens"); let f = self.pick(&["max", "", "min"]); self.p(f); self.mark("(", MK::Op("LPAREN")); let w = self.pick(&["1", "&v", "a"]); self.p(w); self.mark(",", MK::Masked); let w = self.pick(&["2", " &v", "b"]); self.p(w); self.mark(")", MK::Op("RPAREN")); } _ => { if self.u.coin(1, 2) { self.p("'a,b'"); } else { self.mark(";", MK::Masked); } } } } self.mark(")", MK::Delim("RPAREN", false)); self.ows(); self.del_mark(";", "SEMI", "MissingExpectedSemiOrEOF", false); }
            4 => { self.pk("%include"); self.rws(); self.p("'file.sas'"); self.ows(); self.p(";"); }
            5 => { match self.u.below(10) {
                    0 => { self.pk("%abort"); if self.u.coin(1, 2) { let o = self.pick(&[" cancel", " abend 4", " return"]); self.p(o); } else if self.u.coin(1, 2) { self.p(" "); self.opts_text(); } self.ows(); self.p(";"); }
                    1 => { self.pk("%syslput"); self.rws(); self.name_expr(); self.p("="); self.mvar(true); self.p(";"); }
                    2 => { let k = self.pick(&["%include", "%inc", "%INCLUDE"]); self.p(k); self.rws(); let f = self.pick(&["'f.sas'", "\"f&v..sas\"", "fref", "fref(member)"]); self.p(f); if self.u.coin(1, 3) { self.p(" / source2"); } self.ows(); self.p(";"); }
                    3 => { if self.u.coin(1, 2) { self.p("%window w color=red #1 @2 \"t\" "); self.mvar(true); } else { self.pk("%window"); self.rws(); self.p("w "); self.opts_text(); } self.p(";"); }
                    4 => { self.pk("%display"); self.rws(); self.p("w"); if self.u.coin(1, 2) { self.p(" "); self.opts_text(); } self.ows(); self.p(";"); }
                    5 => { self.pk("%input"); self.rws(); if self.u.coin(1, 2) { self.name_expr(); self.p(" b"); } else { self.opts_text(); } self.ows(); self.p(";"); }
                    6 => { self.pk("%sysmacdelete"); self.rws(); let m = self.pick(MNAMES); self.p(m); self.ows(); self.p("/"); if self.u.coin(1, 2) { self.p(" nowarn"); } self.ows(); self.p(";"); /* the lexer documents the '/' of %sysmacdelete as mandatory (expect_macro_name_then_opts) */ }
                    7 => { let k = self.pick(&["%sysmstoreclear", "%list", "%run"]); self.p(k); self.ows(); self.p(";"); }
                    8 => { self.pk("%sysexec"); self.rws(); self.p("echo "); if self.u.coin(1, 2) { self.str_call(); } self.p(" done"); self.p(";"); }
                    _ => { self.pk("%abort"); self.ows(); self.p(";"); }
                } }
            6 => { self.pk("%copy"); self.rws(); let nm = self.pick(MNAMES); self.p(nm); self.ows(); self.del_mark("/", "FSLASH", "MissingExpectedFSlash", false); self.ows(); if self.u.coin(1, 3) { self.opts_text(); self.ows(); } else if self.u.coin(1, 2) { let o = self.pick(&["source", "SOURCE", "source outfile='f.sas'", "lib=work source"]); self.p(o); self.ows(); } self.p(";"); }
            _ => { self.pk("%sysrput"); self.rws(); self.name_expr(); self.p("="); self.mvar(true); self.p(";"); }
        }
    }
}
