//! Adapter between the three compiled variants of the working-tree lexer and the oracles.
//!
//! Every variant is called only through the crate's public API (`lex_program`, the
//! `TokenizedBuffer` accessors, `ErrorInfo` getters, plus the cfg-guarded `verif` field).
//! The result is flattened into a plain [`Dump`]; all oracles work on `Dump`s and therefore
//! cannot depend on which variant produced them.

use std::cell::RefCell;
use std::panic;
use std::sync::Once;

pub use sas_lexer_rel::error::ErrorKind as EK;
pub use sas_lexer_rel::TokenChannel as Ch;
pub use sas_lexer_rel::TokenType as T;
use strum::IntoEnumIterator;

#[derive(Debug, Clone, Copy, PartialEq, Eq, Hash, PartialOrd, Ord)]
pub enum Variant {
    /// opt-level 0, debug assertions and overflow checks on, feature macro_sep
    Dbg,
    /// opt-level 3, no debug assertions, feature macro_sep
    Rel,
    /// as Rel but without the macro_sep feature (the crate's default feature set)
    Nosep,
    /// as Dbg but without the macro_sep feature
    DbgNosep,
    /// as Rel (optimized, no debug assertions) but with arithmetic overflow checks
    Ovf,
}
impl Variant {
    pub fn name(self) -> &'static str {
        match self {
            Variant::Dbg => "dbg",
            Variant::Rel => "rel",
            Variant::Nosep => "nosep",
            Variant::DbgNosep => "dbgnosep",
            Variant::Ovf => "ovf",
        }
    }
    pub const ALL: [Variant; 5] = [Variant::Dbg, Variant::Rel, Variant::Nosep, Variant::DbgNosep, Variant::Ovf];
}

#[derive(Debug, Clone, Copy, PartialEq)]
pub enum Pl {
    None,
    Int(u64),
    /// bit pattern of the f64
    Float(u64),
    Str(u32, u32),
}
impl Pl {
    pub fn f64(self) -> Option<f64> {
        if let Pl::Float(b) = self {
            Some(f64::from_bits(b))
        } else {
            None
        }
    }
}

#[derive(Debug, Clone, PartialEq)]
pub struct Tok {
    pub t: T,
    pub ch: Ch,
    /// byte start / end (end = accessor `get_token_end_byte_offset`)
    pub b: u32,
    pub e: u32,
    /// char start / end
    pub c: u32,
    pub ce: u32,
    pub line: u32,
    pub col: u32,
    pub eline: u32,
    pub ecol: u32,
    pub pl: Pl,
}
impl Tok {
    pub fn empty(&self) -> bool {
        self.b == self.e
    }
}

#[derive(Debug, Clone, PartialEq)]
pub struct ErrRec {
    pub k: EK,
    pub code: u16,
    pub b: u32,
    pub c: u32,
    pub line: u32,
    pub col: u32,
    pub last: Option<u32>,
}

#[derive(Debug, Clone, PartialEq)]
pub struct Res {
    pub ch: Ch,
    pub t: T,
    pub index: u32,
    pub start: u32,
    pub stop: u32,
    pub line: u32,
    pub column: u32,
    pub end_line: u32,
    pub end_column: u32,
    pub pl: Pl,
}

#[derive(Debug, Clone, Default, PartialEq)]
pub struct Verif {
    pub iterations: u64,
    pub budget_exceeded: bool,
    pub checkpoints: u64,
    pub rollbacks: u64,
    pub rollbacks_without_checkpoint: u64,
    pub errors_rolled_over: u64,
    pub lines_rolled_back: u64,
    pub max_mode_stack_depth: usize,
    pub end_mode_stack_len: usize,
    pub end_mode_stack_is_default: bool,
    pub end_mode_stack: Vec<String>,
    pub end_macro_nesting_level: u32,
    pub end_pending_stat_stack: Vec<bool>,
    pub end_checkpoint_live: bool,
}
impl Verif {
    /// The lexer was in its initial open-code configuration when it reached the end of input
    pub fn end_is_initial(&self) -> bool {
        self.end_mode_stack_is_default
            && self.end_macro_nesting_level == 0
            && self.end_pending_stat_stack == [false]
            && !self.end_checkpoint_live
    }
}

#[derive(Debug, Clone, PartialEq)]
pub struct Dump {
    pub toks: Vec<Tok>,
    pub errs: Vec<ErrRec>,
    pub lit: String,
    pub lines: u32,
    pub token_count: u32,
    /// `into_resolved_token_vec()`
    pub resolved: Vec<Res>,
    /// accessor calls that returned `Err` or disagreed with the token info (C02): (token index, accessor name)
    pub accessor_failures: Vec<(u32, &'static str)>,
    /// per token: `get_token_raw_text` returned `None`
    pub raw_none: Vec<bool>,
    /// per token: the text returned by `get_token_raw_text` equals `src[b..e]` (None counts as "")
    pub raw_matches_range: Vec<bool>,
    /// per token: `get_token_resolved_text` is the payload slice (string payloads) or the raw text
    pub resolved_text_ok: Vec<bool>,
    pub verif: Verif,
}

#[derive(Debug, Clone, PartialEq)]
pub struct PanicInfo {
    pub msg: String,
    pub file: String,
    pub line: u32,
}

#[derive(Debug, Clone, PartialEq)]
pub enum Lexed {
    Ok(Box<Dump>),
    Panic(PanicInfo),
    /// `lex_program` returned `Err(kind)` (numeric code)
    Err(u16),
}
impl Lexed {
    pub fn ok(&self) -> Option<&Dump> {
        match self {
            Lexed::Ok(d) => Some(d),
            _ => None,
        }
    }
}

thread_local! {
    static LAST_PANIC: RefCell<Option<PanicInfo>> = const { RefCell::new(None) };
    static QUIET: RefCell<bool> = const { RefCell::new(false) };
}
static HOOK: Once = Once::new();

/// Install a panic hook that records message and location per thread instead of printing,
/// while a lexer call is in flight on that thread. Panics elsewhere are printed as usual.
pub fn install_panic_hook() {
    HOOK.call_once(|| {
        let default = panic::take_hook();
        panic::set_hook(Box::new(move |info| {
            let quiet = QUIET.with(|q| *q.borrow());
            if quiet {
                let msg = if let Some(s) = info.payload().downcast_ref::<&str>() {
                    (*s).to_string()
                } else if let Some(s) = info.payload().downcast_ref::<String>() {
                    s.clone()
                } else {
                    "<non-string panic payload>".to_string()
                };
                let (file, line) = info
                    .location()
                    .map(|l| (l.file().to_string(), l.line()))
                    .unwrap_or_default();
                LAST_PANIC.with(|l| *l.borrow_mut() = Some(PanicInfo { msg, file, line }));
            } else {
                default(info);
            }
        }));
    });
}

fn guarded<F: FnOnce() -> Result<Dump, u16> + panic::UnwindSafe>(f: F) -> Lexed {
    install_panic_hook();
    QUIET.with(|q| *q.borrow_mut() = true);
    LAST_PANIC.with(|l| *l.borrow_mut() = None);
    let r = panic::catch_unwind(f);
    QUIET.with(|q| *q.borrow_mut() = false);
    match r {
        Ok(Ok(d)) => Lexed::Ok(Box::new(d)),
        Ok(Err(code)) => Lexed::Err(code),
        Err(_) => Lexed::Panic(LAST_PANIC.with(|l| l.borrow_mut().take()).unwrap_or(PanicInfo {
            msg: "<panic without hook info>".into(),
            file: String::new(),
            line: 0,
        })),
    }
}

struct Tables {
    t: Vec<T>,
}
fn tables() -> &'static Tables {
    static TB: std::sync::OnceLock<Tables> = std::sync::OnceLock::new();
    TB.get_or_init(|| {
        let t: Vec<T> = T::iter().collect();
        for (i, x) in t.iter().enumerate() {
            assert_eq!(*x as u16 as usize, i, "TokenType discriminants are not 0..COUNT");
        }
        Tables { t }
    })
}
pub fn token_type_from_u16(v: u16) -> T {
    tables().t[v as usize]
}
pub fn all_token_types() -> &'static [T] {
    &tables().t
}
fn ek_from_u16(v: u16) -> EK {
    static M: std::sync::OnceLock<std::collections::HashMap<u16, EK>> = std::sync::OnceLock::new();
    *M.get_or_init(|| EK::iter().map(|k| (k as u16, k)).collect())
        .get(&v)
        .expect("unknown error code")
}
fn ch_from_u8(v: u8) -> Ch {
    for c in Ch::iter() {
        if c as u8 == v {
            return c;
        }
    }
    panic!("unknown channel {v}");
}

macro_rules! adapter {
    ($fname:ident, $krate:ident) => {
        fn $fname(src: &str) -> Result<Dump, u16> {
            use $krate::{lex_program, LexResult, Payload};
            let src_owned: &str = src;
            let LexResult { buffer, errors, verif, .. } = match lex_program(&src_owned) {
                Ok(r) => r,
                Err(k) => return Err(k as u16),
            };
            let conv_pl = |p: Payload| match p {
                Payload::None => Pl::None,
                Payload::Integer(i) => Pl::Int(i),
                Payload::Float(f) => Pl::Float(f.to_bits()),
                Payload::StringLiteral(a, b) => Pl::Str(a, b),
            };
            let n = buffer.token_count() as usize;
            let mut toks = Vec::with_capacity(n);
            let mut accessor_failures: Vec<(u32, &'static str)> = vec![];
            let mut raw_none = Vec::with_capacity(n);
            let mut raw_matches_range = Vec::with_capacity(n);
            let mut resolved_text_ok = Vec::with_capacity(n);
            let lit = buffer.string_literals_buffer().to_string();
            let infos: Vec<_> = buffer.iter_tokens_infos().map(|(i, t)| (i, *t)).collect();
            let idxs: Vec<_> = buffer.iter_tokens().collect();
            if idxs.len() != n || infos.len() != n {
                accessor_failures.push((0, "iter_tokens/iter_tokens_infos/token_count disagree"));
            }
            for (pos, (idx, ti)) in infos.iter().enumerate() {
                let i = pos as u32;
                let idx = *idx;
                if idx.get() != i {
                    accessor_failures.push((i, "iter_tokens_infos index"));
                }
                if idxs.get(pos).map(|x| x.get()) != Some(i) {
                    accessor_failures.push((i, "iter_tokens index"));
                }
                macro_rules! acc {
                    ($e:expr, $name:literal, $default:expr) => {
                        match $e {
                            Ok(v) => v,
                            Err(_) => {
                                accessor_failures.push((i, $name));
                                $default
                            }
                        }
                    };
                }
                let b = acc!(buffer.get_token_start_byte_offset(idx), "get_token_start_byte_offset", Default::default()).get();
                let e = acc!(buffer.get_token_end_byte_offset(idx), "get_token_end_byte_offset", Default::default()).get();
                let c = acc!(buffer.get_token_start(idx), "get_token_start", Default::default()).get();
                let ce = acc!(buffer.get_token_end(idx), "get_token_end", Default::default()).get();
                let line = acc!(buffer.get_token_start_line(idx), "get_token_start_line", 0);
                let eline = acc!(buffer.get_token_end_line(idx), "get_token_end_line", 0);
                let col = acc!(buffer.get_token_start_column(idx), "get_token_start_column", 0);
                let ecol = acc!(buffer.get_token_end_column(idx), "get_token_end_column", 0);
                let ty = acc!(buffer.get_token_type(idx), "get_token_type", ti.token_type());
                let chn = acc!(buffer.get_token_channel(idx), "get_token_channel", ti.channel());
                let pl = acc!(buffer.get_token_payload(idx), "get_token_payload", Payload::None);
                // the TokenInfo view must agree with the accessor view
                if ti.byte_offset().get() != b { accessor_failures.push((i, "TokenInfo.byte_offset != accessor")); }
                if ti.start().get() != c { accessor_failures.push((i, "TokenInfo.start != accessor")); }
                if ti.line() != line { accessor_failures.push((i, "TokenInfo.line != accessor")); }
                if ti.token_type() != ty { accessor_failures.push((i, "TokenInfo.token_type != accessor")); }
                if ti.channel() != chn { accessor_failures.push((i, "TokenInfo.channel != accessor")); }
                if ti.payload() != pl { accessor_failures.push((i, "TokenInfo.payload != accessor")); }
                let range_txt = src.get(b as usize..e as usize);
                match buffer.get_token_raw_text(idx, &src_owned) {
                    Ok(r) => {
                        raw_none.push(r.is_none());
                        raw_matches_range.push(range_txt.is_some() && r.unwrap_or("") == range_txt.unwrap_or("\u{0}"));
                    }
                    Err(_) => {
                        accessor_failures.push((i, "get_token_raw_text"));
                        raw_none.push(false);
                        raw_matches_range.push(false);
                    }
                }
                match buffer.get_token_resolved_text(idx, &src_owned) {
                    Ok(r) => {
                        let want = match pl {
                            Payload::StringLiteral(a, z) => lit.get(a as usize..z as usize),
                            _ => range_txt.filter(|s| !s.is_empty()),
                        };
                        resolved_text_ok.push(r == want);
                    }
                    Err(_) => {
                        accessor_failures.push((i, "get_token_resolved_text"));
                        resolved_text_ok.push(false);
                    }
                }
                if let Payload::StringLiteral(a, z) = pl {
                    if buffer.get_string_literal(a, z).is_err() {
                        accessor_failures.push((i, "get_string_literal"));
                    }
                }
                toks.push(Tok {
                    t: token_type_from_u16(ty as u16),
                    ch: ch_from_u8(chn as u8),
                    b, e, c, ce, line, col, eline, ecol,
                    pl: conv_pl(pl),
                });
            }
            let resolved = buffer
                .into_resolved_token_vec()
                .into_iter()
                .map(|r| Res {
                    ch: ch_from_u8(r.channel as u8),
                    t: token_type_from_u16(r.token_type as u16),
                    index: r.token_index,
                    start: r.start,
                    stop: r.stop,
                    line: r.line,
                    column: r.column,
                    end_line: r.end_line,
                    end_column: r.end_column,
                    pl: conv_pl(r.payload),
                })
                .collect();
            let errs = errors
                .iter()
                .map(|e| ErrRec {
                    k: ek_from_u16(e.error_kind() as u16),
                    code: e.error_kind() as u16,
                    b: e.at_byte_offset(),
                    c: e.at_char_offset(),
                    line: e.on_line(),
                    col: e.at_column(),
                    last: e.last_token().map(|t| t.get()),
                })
                .collect();
            Ok(Dump {
                toks,
                errs,
                lit,
                lines: buffer.line_count(),
                token_count: buffer.token_count(),
                resolved,
                accessor_failures,
                raw_none,
                raw_matches_range,
                resolved_text_ok,
                verif: Verif {
                    iterations: verif.iterations,
                    budget_exceeded: verif.budget_exceeded,
                    checkpoints: verif.checkpoints,
                    rollbacks: verif.rollbacks,
                    rollbacks_without_checkpoint: verif.rollbacks_without_checkpoint,
                    errors_rolled_over: verif.errors_rolled_over,
                    lines_rolled_back: verif.lines_rolled_back,
                    max_mode_stack_depth: verif.max_mode_stack_depth,
                    end_mode_stack_len: verif.end_mode_stack_len,
                    end_mode_stack_is_default: verif.end_mode_stack_is_default,
                    end_mode_stack: verif.end_mode_stack.clone(),
                    end_macro_nesting_level: verif.end_macro_nesting_level,
                    end_pending_stat_stack: verif.end_pending_stat_stack.clone(),
                    end_checkpoint_live: verif.end_checkpoint_live,
                },
            })
        }
    };
}

adapter!(dump_dbg, sas_lexer_dbg);
adapter!(dump_rel, sas_lexer_rel);
adapter!(dump_nosep, sas_lexer_nosep);
adapter!(dump_dbgnosep, sas_lexer_dbgnosep);
adapter!(dump_ovf, sas_lexer_ovf);

/// Lex `src` with the given variant. Never panics, never hangs (iteration budget of the hook).
pub fn lex(v: Variant, src: &str) -> Lexed {
    crate::runner::lex_enter();
    let r = lex_inner(v, src);
    crate::runner::lex_leave();
    r
}
fn lex_inner(v: Variant, src: &str) -> Lexed {
    match v {
        Variant::Dbg => guarded(|| dump_dbg(src)),
        Variant::Rel => guarded(|| dump_rel(src)),
        Variant::Nosep => guarded(|| dump_nosep(src)),
        Variant::DbgNosep => guarded(|| dump_dbgnosep(src)),
        Variant::Ovf => guarded(|| dump_ovf(src)),
    }
}

pub fn iter_budget(len: usize) -> u64 {
    sas_lexer_rel::VERIF_ITER_BASE + sas_lexer_rel::VERIF_ITER_PER_BYTE * len as u64
}

pub fn tname(t: T) -> String {
    format!("{t}")
}

/// Human-readable rendering of a dump (for replay output and messages)
pub fn render(src: &str, d: &Dump) -> String {
    let mut s = String::new();
    for (i, t) in d.toks.iter().enumerate() {
        let raw = src.get(t.b as usize..t.e as usize).unwrap_or("<bad range>");
        s.push_str(&format!(
            "{i:>3} {:?}/{:?} b{}..{} c{}..{} L{}:{}-L{}:{} {:?} {:?}\n",
            t.t, t.ch, t.b, t.e, t.c, t.ce, t.line, t.col, t.eline, t.ecol, raw, t.pl
        ));
    }
    s.push_str(&format!("lines={} lit={:?}\n", d.lines, d.lit));
    for e in &d.errs {
        s.push_str(&format!("ERR {:?} b{} c{} L{}:{} last={:?}\n", e.k, e.b, e.c, e.line, e.col, e.last));
    }
    s.push_str(&format!("verif={:?}\n", d.verif));
    s
}
