//! Metamorphic properties: C15 (composition at closed boundaries), C16 (ASCII case),
//! and the batch / toolchain parts of C19.
use super::{common_labels, gram_text, is_macro_token, text_mix, Property, Sweep, Tier};
use crate::api::{lex, Ch, Dump, Lexed, Pl, Variant, T};
use crate::core::{Case, Verdict, Violation};
use crate::gen::text;
use crate::oracle::kw::{is_kw, is_kwm, keywords_of};
use crate::props::univ::first_diff;
use crate::su::{hash_str, mix2, Mix, Src};

fn lex_ok(v: Variant, s: &str) -> Option<Box<Dump>> {
    match lex(v, s) {
        Lexed::Ok(d) if !d.verif.budget_exceeded => Some(d),
        _ => None,
    }
}

// ------------------------------------------------------------------------------------------ C15

pub struct C15;

/// `A` is a closed prefix: ends in a consumed ';' or statement-level comment and leaves the lexer
/// in its initial configuration (a *subset* of the property's premise, see DESIGN C15)
pub fn is_closed(a: &str, d: &Dump) -> bool {
    // (a prefix with diagnosed faults that the lexer has recovered from qualifies too)
    if !d.verif.end_is_initial() {
        return false;
    }
    closed_tail(a, d)
}

/// the part of closedness that does not rely on the lexer's own end-of-input snapshot; used
/// alone for prefixes that are closed *by construction* (well-formed generated programs: C12 says
/// they end in the initial configuration, so on a correct lexer nothing is lost, and a lexer
/// that leaks state past such a prefix is not allowed to hide behind its own snapshot)
pub fn is_closed_syntactically(a: &str, d: &Dump) -> bool {
    d.errs.is_empty() && closed_tail(a, d)
}

fn closed_tail(a: &str, d: &Dump) -> bool {
    let n = d.toks.len();
    if n < 2 {
        return a.is_empty();
    }
    let t = &d.toks[n - 2];
    let raw = &a[t.b as usize..t.e as usize];
    let last_ok = (t.t == T::SEMI && !raw.is_empty())
        || (t.t == T::PredictedCommentStat && raw.ends_with(';'))
        || (t.t == T::MacroComment && macro_comment_terminated(raw))
        || (t.t == T::CStyleComment && raw.ends_with("*/") && raw.len() >= 4);
    let last_def = d.toks[..n - 1].iter().rev().find(|t| t.ch == Ch::DEFAULT);
    let def_ok = last_def.map_or(true, |t| t.t == T::SEMI && !t.empty());
    last_ok && def_ok
}

/// the first ';' outside '…' / "…" pairs is the last character (a ';' inside an open quote does
/// not terminate a macro comment, so such a comment is still open at end of input)
fn macro_comment_terminated(raw: &str) -> bool {
    let mut q: Option<char> = None;
    for (bi, c) in raw.char_indices().skip(2) {
        match (q, c) {
            (None, ';') => return bi + 1 == raw.len(),
            (None, '\'') | (None, '"') => q = Some(c),
            (Some(x), y) if x == y => q = None,
            _ => {}
        }
    }
    false
}

const CLOSED: &[&str] = &[
    "data a; x=1; run;", "%let a=1;", "%put hello &x;", "%macro m(a,b=1); %put &a; %mend;", "proc sort data=a; by x; run;", "x = 'a;b';", "%if &a %then %do; y=2; %end;", "* comment;", "%* mc;",
    "datalines;\n1 2\n;", "cards4;\na;b\n;;;;", "%do i=1 %to 3; z; %end;", "a = %eval(1+2);", "b = \"x&y.z\";", "%m(1,b=2);", ";", "%global g;", "%goto lbl;", "%lbl: ;", "\u{e9}=1;", "x\n=\n2\n;",
    "/* c */", "x='it''s';", "y=\"a\"\"b\";", "%let s=%str(a%'b);", "z;\n/* c */\n", "%macro q; %mend q;", "%m;", "%do %while(&i<3); %end;",
    "%macro f;x%mend;", "%macro g(a,b); &a + &b %mend g;", "%macro h(s); %length(&s) - 1 %mend;", "%if &c %then %do; keep x %end;", "%macro k; %if 1 %then %do; y %end; %mend;",
];
const CLOSERS: &[&str] = &["", ";", " ;", "*/;", "';", "\";", ");", "));", "%end;", "%mend;", ";%mend;", ";%end;", "\n;", ";;;;"];

fn gen_a(s: &mut Src) -> (&'static str, String) {
    match s.below(8) {
        0 | 1 | 2 => {
            let len = 8 + s.below(120);
            let mut b = vec![0u8; len];
            for x in b.iter_mut() {
                *x = s.byte();
            }
            ("A:gram", gram_text(&b))
        }
        3 => {
            let k = 1 + s.below(3);
            let mut a = String::new();
            for _ in 0..k {
                a.push_str(s.pick(CLOSED));
                if s.coin(1, 3) {
                    a.push('\n');
                }
            }
            ("A:closed-list", a)
        }
        4 => {
            // a real-world program prefix cut after a ';'
            let w = crate::gen::program_window(s, crate::gen::corpus(), 600);
            match w.rfind(';') {
                Some(p) => ("A:window-to-semi", w[..=p].to_string()),
                None => ("A:window-to-semi", String::new()),
            }
        }
        _ => {
            // arbitrary string; try to close it with one of a few suffixes
            let base = text::g_soup(s, 8);
            let start = s.below(CLOSERS.len());
            for i in 0..CLOSERS.len() {
                let cand = format!("{base}{}", CLOSERS[(start + i) % CLOSERS.len()]);
                if let Some(d) = lex_ok(Variant::Rel, &cand) {
                    if is_closed(&cand, &d) {
                        return ("A:arbitrary-closed-by-lexer", cand);
                    }
                }
            }
            ("A:arbitrary-not-closed", base)
        }
    }
}

fn expected_concat(a: &str, da: &Dump, db: &Dump) -> Dump {
    let na = (da.toks.len() - 1) as u32;
    let alen = a.len() as u32;
    let aclen = a.chars().count() as u32;
    let alines = da.lines - 1;
    let lastcol = {
        let tail = a.rsplit('\n').next().unwrap_or("");
        let mut c = tail.chars().count() as u32;
        if !a.contains('\n') && a.starts_with('\u{feff}') {
            c -= 1;
        }
        c
    };
    let litlen = da.lit.len() as u32;
    let shl = |l: u32| l + alines;
    let shc = |l: u32, c: u32| if l == 1 { c + lastcol } else { c };
    let shp = |p: Pl| match p {
        Pl::Str(x, y) => Pl::Str(x + litlen, y + litlen),
        o => o,
    };
    let mut x = da.clone();
    x.toks.pop();
    x.resolved.pop();
    x.raw_none.pop();
    x.raw_matches_range.pop();
    x.resolved_text_ok.pop();
    for t in &db.toks {
        let mut t = t.clone();
        t.col = shc(t.line, t.col);
        t.ecol = shc(t.eline, t.ecol);
        t.line = shl(t.line);
        t.eline = shl(t.eline);
        t.b += alen;
        t.e += alen;
        t.c += aclen;
        t.ce += aclen;
        t.pl = shp(t.pl);
        x.toks.push(t);
    }
    for r in &db.resolved {
        let mut r = r.clone();
        r.column = shc(r.line, r.column);
        r.end_column = shc(r.end_line, r.end_column);
        r.line = shl(r.line);
        r.end_line = shl(r.end_line);
        r.start += aclen;
        r.stop += aclen;
        r.index += na;
        r.pl = shp(r.pl);
        x.resolved.push(r);
    }
    x.raw_none.extend(db.raw_none.iter());
    x.raw_matches_range.extend(db.raw_matches_range.iter());
    x.resolved_text_ok.extend(db.resolved_text_ok.iter());
    for e in &db.errs {
        let mut e = e.clone();
        e.col = shc(e.line, e.col);
        e.line = shl(e.line);
        e.b += alen;
        e.c += aclen;
        e.last = Some(match e.last {
            Some(l) => l + na,
            None => na.wrapping_sub(1),
        });
        x.errs.push(e);
    }
    x.lit.push_str(&db.lit);
    x.lines = da.lines + db.lines - 1;
    x.token_count = x.toks.len() as u32;
    x
}

/// every ordered pair of the statement-complete real-world programs
pub struct RealPairs;
impl Sweep for RealPairs {
    fn name(&self) -> String {
        "every ordered pair (A, B) of the statement-complete real-world programs of corpus/, and each program followed by each test-suite literal".into()
    }
    fn chunks(&self) -> usize {
        crate::props::gramp::real_programs().len()
    }
    fn run_chunk(&self, chunk: usize, f: &mut dyn FnMut(Case)) {
        let ps = crate::props::gramp::real_programs();
        let a = &ps[chunk].1;
        for (_, b) in ps.iter() {
            f(Case::pair("A:closed-list", a.clone(), b.trim_start_matches('\u{feff}').to_string()));
        }
        if chunk < 4 {
            for t in crate::gen::corpus().tests.iter() {
                f(Case::pair("A:closed-list", a.clone(), t.trim_start_matches('\u{feff}').to_string()));
            }
        }
    }
}

impl Property for C15 {
    fn id(&self) -> &'static str {
        "C15"
    }
    fn sweeps(&self, _tier: Tier, _seed: u64) -> Vec<Box<dyn Sweep>> {
        vec![Box::new(RealPairs)]
    }
    fn rule(&self) -> String {
        "cases: pairs (A, B); A is a construct-grammar program, a concatenation of closed statements, a real-world prefix cut after ';', or an arbitrary fragment soup (plus one of a few closing suffixes) that the lexer itself leaves closed - closedness is decided by the hook snapshot (initial configuration at end of input) plus 'last token is a consumed ;/statement-level comment'; B is any generated string not starting with U+FEFF, and for every closed A additionally three of 34 fixed state-probing continuations ('* note', 'datalines;…', '%end;', ')', …); oracle: lex(A+B) == lex(A) without EOF ++ shift(lex(B)), in the macro_sep and the default feature configuration; pairs whose A is not closed are discarded (counted); distinct = distinct (A,B); non-trivial = A and B non-empty and (A not from the grammar or B contains a macro token)".into()
    }
    fn cases(&self, tier: Tier) -> u64 {
        match tier {
            Tier::Quick => 300_000,
            Tier::Thorough => 3_000_000,
        }
    }
    fn stream_len(&self) -> usize {
        420
    }
    fn generate(&self, s: &mut Src) -> Case {
        let (ga, a) = gen_a(s);
        let (_gb, mut b) = text_mix(s, [10, 3, 1, 4, 3, 2, 1, 2]);
        while b.starts_with('\u{feff}') {
            b.remove(0);
        }
        Case::pair(ga, a, b)
    }
    fn check(&self, case: &Case) -> Verdict {
        let (a, b) = (case.t0(), case.t1());
        let mut vd = Verdict { key: format!("{a}\u{241e}{b}"), ..Default::default() };
        vd.label(format!("gen:{}", case.gen));
        if b.starts_with('\u{feff}') {
            vd.discard = Some("B starts with a BOM");
            return vd;
        }
        let by_construction = matches!(case.gen, "A:gram" | "A:closed-list");
        check_pair(a, b, by_construction, case.gen, true, &mut vd);
        if vd.discard.is_none() && vd.violations.is_empty() && !a.is_empty() {
            // the same A followed by continuations whose tokenization depends on lexer state that must have been reset
            // at the boundary (statement-start heuristics, datalines detection, nesting counters, pending flags)
            let h = a.len() + b.len();
            for k in 0..3 {
                let probe = PROBES[(h + k * 7) % PROBES.len()];
                check_pair(a, probe, by_construction, case.gen, false, &mut vd);
                if !vd.violations.is_empty() {
                    break;
                }
            }
            vd.discard = None;
        }
        vd
    }
}

/// continuations B that make leaked state visible
const PROBES: &[&str] = &[
    "* note 'x;", "*c;", "* a %b &c;x", "datalines;\n1 2\n;", "cards;\n%x\n;x", "%end;", "%mend;", ")", ",b)", "=1;", "%else x;", "%then y;", "%to 3;", ":", "(a,b)", "%by 2;", "x", "format x $8.;",
    "'a'", "\"b&c\"", "/*c*/ *d;", " * e;", "%* f;", "%m(a=1)", "%let v=1;", "a=1 %do; %end;", "%put *;", "&v", "%macro n(a); %mend;", "lines4;\n;\n;;;;", "0ffx", "1e", "%str(,)", "%if 1 %then *;",
];

fn check_pair(a: &str, b: &str, by_construction: bool, gen: &'static str, primary: bool, vd: &mut Verdict) {
    let ab = format!("{a}{b}");
    for v in [Variant::Rel, Variant::Nosep] {
        let (da, db, dab) = match (lex_ok(v, a), lex_ok(v, b), lex_ok(v, &ab)) {
            (Some(x), Some(y), Some(z)) => (x, y, z),
            _ => {
                vd.discard = Some("no result for A, B or A+B (C01 territory)");
                return;
            }
        };
        if !(if by_construction { is_closed_syntactically(a, &da) } else { is_closed(a, &da) }) {
            vd.discard = Some("A is not a closed prefix");
            return;
        }
        if v == Variant::Rel && primary && !da.errs.is_empty() {
            vd.label("A-has-recovered-errors");
        }
        let mut exp = expected_concat(a, &da, &db);
        exp.verif = dab.verif.clone();
        exp.accessor_failures = dab.accessor_failures.clone();
        if exp != *dab {
            let cls = if exp.toks.iter().map(|t| (t.t, t.ch)).ne(dab.toks.iter().map(|t| (t.t, t.ch))) { "token-types" } else if exp.toks != dab.toks { "token-positions-or-payloads" } else if exp.errs != dab.errs { "errors" } else { "other" };
            let what = if primary { String::new() } else { format!(" with B = {b:?}") };
            vd.violations.push(Violation::new("C15", "not-compositional", format!("not-compositional:{cls}"), format!("[{}] lex(A+B) differs from lex(A) ++ shift(lex(B)){what}: {}", v.name(), first_diff(&exp, &dab))));
            return;
        }
        if v == Variant::Rel && primary {
            common_labels(&db, &mut vd.labels);
            let b_macro = db.toks.iter().any(|t| is_macro_token(t.t));
            if b_macro {
                vd.label("B-has-macro-token");
            }
            vd.nontrivial = !a.is_empty() && !b.is_empty() && (gen != "A:gram" || b_macro);
        }
    }
}

// ------------------------------------------------------------------------------------------ C16

pub struct C16;

fn lower_lit(d: &Dump) -> Dump {
    let mut x = d.clone();
    x.lit = x.lit.to_ascii_lowercase();
    x
}

pub fn check_case_pair(base: &str, variant: &str, vd: &mut Verdict) {
    if base.len() != variant.len() || base.to_ascii_lowercase() != variant.to_ascii_lowercase() {
        vd.discard = Some("variant is not an ASCII case variant of the base");
        return;
    }
    let (d0, d1) = match (lex_ok(Variant::Rel, base), lex_ok(Variant::Rel, variant)) {
        (Some(a), Some(b)) => (a, b),
        _ => {
            vd.discard = Some("no result for base or variant (C01 territory)");
            return;
        }
    };
    let (l0, l1) = (lower_lit(&d0), lower_lit(&d1));
    if l0 != l1 {
        let i = l0.toks.iter().zip(l1.toks.iter()).position(|(x, y)| x != y);
        let sig = match i {
            Some(i) => format!("case-changes-result:{:?}->{:?}", l0.toks[i].t, l1.toks[i].t),
            None => "case-changes-result:errors-or-buffers".to_string(),
        };
        vd.violations.push(Violation::new("C16", "case-changes-result", sig, format!("base vs case variant: {}", first_diff(&l0, &l1))));
    }
    // non-trivial: a changed letter lies in a keyword, mnemonic, suffix, numeric or datalines token of the base
    let diff: Vec<usize> = base.bytes().zip(variant.bytes()).enumerate().filter(|(_, (a, b))| a != b).map(|(i, _)| i).collect();
    let sensitive = |t: T| is_kw(t) || is_kwm(t) || crate::oracle::universal::is_numeric(t) || crate::oracle::universal::is_expr_end(t) || (crate::oracle::universal::is_quoted_lit(t) && t != T::StringLiteral) || t == T::DatalinesStart;
    let mut nt = false;
    for t in &d0.toks {
        if sensitive(t.t) && diff.iter().any(|&p| p >= t.b as usize && p < t.e as usize) {
            nt = true;
            vd.labels.push(format!("case-changed-in:{}", if is_kwm(t.t) { "macro-keyword" } else if is_kw(t.t) { "keyword-or-mnemonic" } else if t.t == T::DatalinesStart { "datalines-keyword" } else if crate::oracle::universal::is_numeric(t.t) { "numeric" } else { "literal-suffix" }));
        }
    }
    vd.nontrivial = nt;
}

impl Property for C16 {
    fn id(&self) -> &'static str {
        "C16"
    }
    fn rule(&self) -> String {
        "cases: (base, ASCII case variant) with random masks over bases from the shared generator mix, plus the exhaustive sweep of all 2^n spellings of every open-code keyword, macro keyword, mnemonic, literal suffix, hex/exponent spelling and datalines keyword in 2-4 fixed contexts; oracle: results equal after ASCII-lower-casing the literal buffer; distinct = distinct (base, variant); non-trivial = a changed letter lies inside a keyword, mnemonic, literal-suffix, numeric or datalines-start token of the base".into()
    }
    fn cases(&self, tier: Tier) -> u64 {
        match tier {
            Tier::Quick => 300_000,
            Tier::Thorough => 3_000_000,
        }
    }
    fn generate(&self, s: &mut Src) -> Case {
        let (g, base) = text_mix(s, [10, 2, 0, 6, 2, 2, 2, 3]);
        let variant = text::case_variant(s, &base);
        Case::pair(g, base, variant)
    }
    fn check(&self, case: &Case) -> Verdict {
        let mut vd = Verdict { key: format!("{}\u{241e}{}", case.t0(), case.t1()), ..Default::default() };
        vd.label(format!("gen:{}", case.gen));
        check_case_pair(case.t0(), case.t1(), &mut vd);
        vd
    }
    fn sweeps(&self, _tier: Tier, _seed: u64) -> Vec<Box<dyn Sweep>> {
        vec![Box::new(CaseMasks::new()), Box::new(Alphabet)]
    }
}

/// every ASCII letter, as first and as later character, in every kind of name position (macro names, parameters,
/// macro variables, calls, labels, named arguments, open-code identifiers, formats, literal suffix neighbours): a
/// letter-class table that misses one letter in one case shows here
pub struct Alphabet;
const ALPHA_TEMPLATES: &[&str] = &[
    "%macro @ap(@x, @one=1, a@); %put &@x &a@; %mend @ap;",
    "%@ap(@one=2, a@=3) %a@(1)",
    "%let @v=1; %let a@=2; %put &@v &&@v.. &a@. &&a@&@v;",
    "%@lbl: %goto @lbl; %a@: ;",
    "data @d a@; @y=@f(a@); format @y @fmt8. $@c5. a@9.2; run;",
    "%if &@v eq @q %then %do @i=1 %to 2; %end; %else %put @;",
    "%local @ a@; %global / readonly @r=1; %symdel @v / nowarn;",
    "%do %while(&@ ne a@); %end; %sysfunc(@fn(a@), @fmt.) %syscall @rt(a@);",
    "%str(@ a@) %nrstr(&@ %a@) \"@ &@v %@ap() a@\" '@'n \"a@\"n",
    "%put %upcase(@a) %scan(&@v, 1, @) %eval(@ + a@) %index(@a, a@);",
    "proc @p data=@d(keep=@k a@); by @b; run; * @ a@; %* @ a@;",
];
impl Sweep for Alphabet {
    fn name(&self) -> String {
        format!("every ASCII letter as first and later character of every kind of name: {} templates x 26 letters, lower case vs upper case (the letter alone, and the whole text)", ALPHA_TEMPLATES.len())
    }
    fn chunks(&self) -> usize {
        26
    }
    fn run_chunk(&self, chunk: usize, f: &mut dyn FnMut(Case)) {
        let lo = (b'a' + chunk as u8) as char;
        let up = lo.to_ascii_uppercase();
        for t in ALPHA_TEMPLATES {
            let base = t.replace('@', &lo.to_string());
            f(Case::pair("alphabet", base.clone(), t.replace('@', &up.to_string())));
            f(Case::pair("alphabet", base.clone(), base.to_ascii_uppercase()));
        }
    }
    fn exhaustive(&self) -> bool {
        true
    }
}

/// all 2^n spellings of each keyword-like word in fixed contexts
pub struct CaseMasks {
    words: Vec<(String, Vec<(&'static str, &'static str)>)>,
}
impl CaseMasks {
    pub fn new() -> Self {
        let mut words: Vec<(String, Vec<(&'static str, &'static str)>)> = vec![];
        for &t in crate::api::all_token_types() {
            if is_kwm(t) {
                for k in keywords_of(t) {
                    words.push((k.to_ascii_lowercase(), vec![("%", " x;"), ("a %", "(b,c) d;"), ("%m(%", ")"), ("\"%", " x\"")]));
                }
            } else if is_kw(t) {
                for k in keywords_of(t) {
                    words.push((k.to_ascii_lowercase(), vec![("", " x;"), ("a ", ";"), ("%eval(a ", " b)"), ("%if 1 ", " 2 %then;")]));
                }
            }
        }
        for m in ["eq", "ne", "lt", "le", "gt", "ge", "and", "or", "not", "in"] {
            words.push((m.to_string(), vec![("%eval(a ", " b)"), ("%if &x ", " 1 %then;"), ("%sysevalf(1.5 ", " 2)"), ("%eval(", " b)")]));
        }
        for suf in ["b", "d", "dt", "n", "t", "x"] {
            words.push((suf.to_string(), vec![("'4a'", ";"), ("\"4a\"", ";"), ("\"&a\"", ";"), ("%let a='4a'", ";")]));
        }
        for w in ["datalines", "cards", "lines", "datalines4", "cards4", "lines4"] {
            words.push((w.to_string(), vec![("", ";\nab\n;;;;"), ("x; ", " ;\n;")]));
        }
        for w in ["0abx", "1e5", "1e5x", "0dex", "2.5e-3", "0fx", "1e+5"] {
            words.push((w.to_string(), vec![("", ";"), ("%eval(", ")"), ("%sysevalf(", ")")]));
        }
        CaseMasks { words }
    }
}
impl Default for CaseMasks {
    fn default() -> Self {
        Self::new()
    }
}
impl Sweep for CaseMasks {
    fn name(&self) -> String {
        format!("exhaustive: all 2^n ASCII case spellings of {} keyword-like words (every Kw*/Kwm* keyword, mnemonics, literal suffixes, datalines keywords, hex/exponent spellings), each in 2-4 fixed contexts", self.words.len())
    }
    fn chunks(&self) -> usize {
        self.words.len()
    }
    fn run_chunk(&self, chunk: usize, f: &mut dyn FnMut(Case)) {
        let (w, ctxs) = &self.words[chunk];
        let letters: Vec<usize> = w.char_indices().filter(|(_, c)| c.is_ascii_alphabetic()).map(|(i, _)| i).collect();
        let nl = letters.len().min(14);
        for (pre, post) in ctxs {
            let base = format!("{pre}{w}{post}");
            for mask in 1u32..(1u32 << nl) {
                let mut v: Vec<u8> = w.bytes().collect();
                for (bit, &li) in letters.iter().take(nl).enumerate() {
                    if mask >> bit & 1 == 1 {
                        v[li] = v[li].to_ascii_uppercase();
                    }
                }
                f(Case::pair("exhaustive-masks", base.clone(), format!("{pre}{}{post}", String::from_utf8(v).unwrap())));
            }
        }
    }
    fn exhaustive(&self) -> bool {
        true
    }
}

// ------------------------------------------------------------------------------------------ C19 batch

/// canonical digest of a lexing result (everything observable through the API plus the hook)
pub fn digest(l: &Lexed) -> u64 {
    match l {
        Lexed::Ok(d) => hash_str(&format!("{:?}", d)),
        Lexed::Panic(p) => hash_str(&format!("PANIC {}", p.msg.lines().next().unwrap_or(""))),
        Lexed::Err(c) => hash_str(&format!("ERR {c}")),
    }
}

pub fn batch_inputs(seed: u64, n: usize) -> Vec<String> {
    let mut m = Mix::new(seed);
    (0..n)
        .map(|i| {
            // a few token-dense inputs per batch: more tokens than the buffers' initial capacity
            // (the nightly-only push_within_capacity path, the capacity heuristics)
            if i < 4 {
                let f = ["; ", "a=1;", "(", "%m "][i];
                return f.repeat(20 + m.below(400));
            }
            let len = 16 + m.below(240);
            let b = m.bytes(len);
            let mut s = Src::new(&b);
            text_mix(&mut s, [10, 3, 1, 4, 2, 1, 1, 2]).1
        })
        .collect()
}

/// C19 (b)+(c): a batch lexed concurrently on 16 threads, in different orders, must give the
/// single-threaded answers; the case is the whole batch.
pub fn check_batch(texts: &[String], vd: &mut Verdict) {
    use std::sync::atomic::{AtomicUsize, Ordering};
    use std::sync::{Arc, Barrier};
    let threads = 16usize;
    let base: Vec<(u64, u64)> = texts.iter().map(|t| (digest(&lex(Variant::Rel, t)), digest(&lex(Variant::Dbg, t)))).collect();
    let inflight = Arc::new(AtomicUsize::new(0));
    let max_inflight = Arc::new(AtomicUsize::new(0));
    let barrier = Arc::new(Barrier::new(threads));
    let texts_arc: Arc<Vec<String>> = Arc::new(texts.to_vec());
    let base_arc = Arc::new(base.clone());
    let mut handles = vec![];
    for th in 0..threads {
        let (texts, base, barrier, inflight, max_inflight) = (texts_arc.clone(), base_arc.clone(), barrier.clone(), inflight.clone(), max_inflight.clone());
        handles.push(std::thread::spawn(move || {
            let n = texts.len();
            let mut bad: Vec<(usize, &'static str)> = vec![];
            barrier.wait();
            for pass in 0..3 {
                // a pass = the whole batch lexed back to back in this thread's own order
                // (history differs per thread); the in-flight counter spans the pass
                let cur = inflight.fetch_add(1, Ordering::SeqCst) + 1;
                max_inflight.fetch_max(cur, Ordering::SeqCst);
                let mut got: Vec<(usize, Variant, crate::api::Lexed)> = Vec::with_capacity(n);
                for k in 0..n {
                    let i = ((k + pass * 5) * (2 * th + 1) + th * 7) % n;
                    let v = if (k + th + pass) % 4 == 0 { Variant::Dbg } else { Variant::Rel };
                    got.push((i, v, lex(v, &texts[i])));
                }
                inflight.fetch_sub(1, Ordering::SeqCst);
                for (i, v, l) in got {
                    let want = if v == Variant::Dbg { base[i].1 } else { base[i].0 };
                    if digest(&l) != want {
                        bad.push((i, v.name()));
                    }
                }
            }
            bad
        }));
    }
    let mut bad_all = vec![];
    for h in handles {
        if let Ok(b) = h.join() {
            bad_all.extend(b);
        } else {
            vd.violations.push(Violation::simple("C19", "thread-panicked", "a lexing thread panicked outside catch_unwind".to_string()));
        }
    }
    if let Some((i, vn)) = bad_all.first() {
        vd.violations.push(Violation::new("C19", "concurrent-differs", "concurrent-differs", format!("{} result(s) differ between concurrent and single-threaded lexing; first: input #{i} ({vn} build) {:?}", bad_all.len(), crate::core::trunc(&texts[*i], 120))));
    }
    vd.maxima.push(("max_threads_in_flight", max_inflight.load(Ordering::SeqCst) as f64));
    if max_inflight.load(Ordering::SeqCst) >= 8 {
        vd.label("at-least-8-threads-overlapped");
    }
    // history: the first input again after everything else has been lexed
    if let Some(t0) = texts.first() {
        if digest(&lex(Variant::Rel, t0)) != base[0].0 {
            vd.violations.push(Violation::simple("C19", "history-differs", "an input lexed again after the rest of the batch gives a different result".to_string()));
        }
    }
    vd.nontrivial = max_inflight.load(Ordering::SeqCst) >= 8;
}

pub struct ThreadsSweep {
    pub seed: u64,
    pub batches: usize,
}
impl Sweep for ThreadsSweep {
    fn name(&self) -> String {
        format!("{} batches of 160 generated inputs, each batch lexed by 16 threads concurrently (barrier start, per-thread order, debug and optimized builds mixed) and compared with the single-threaded results; first input re-lexed at the end (history)", self.batches)
    }
    fn chunks(&self) -> usize {
        self.batches
    }
    fn run_chunk(&self, chunk: usize, f: &mut dyn FnMut(Case)) {
        let texts = batch_inputs(mix2(self.seed, chunk as u64), 160);
        f(Case { kind: "batch".into(), texts, bytes: vec![], n: 0, gen: "thread-batch" });
    }
}

// ------------------------------------------------------------------------------------------ C19 toolchain

/// digests of (optimized, debug-assertion) builds as one string
pub fn digest_pair(src: &str) -> String {
    format!("{:016x}:{:016x}", digest(&lex(Variant::Rel, src)), digest(&lex(Variant::Dbg, src)))
}

/// C19 (d): case = (source, digest pair computed by the harness built with the other toolchain)
pub fn check_xtool(case: &Case, mut vd: Verdict) -> Verdict {
    let src = case.t0();
    let other = case.t1();
    let mine = digest_pair(src);
    if mine != other {
        vd.violations.push(Violation::new("C19", "toolchain-differs", "toolchain-differs", format!("stable-toolchain harness digests {mine}, nightly-toolchain harness digests {other}")));
    }
    vd.label("toolchain-pair");
    let d = lex_ok(Variant::Rel, src);
    vd.nontrivial = d.map_or(false, |d| d.toks.iter().any(|t| is_macro_token(t.t)) || !d.errs.is_empty());
    vd
}

/// asks a harness binary built with the nightly toolchain (crate cfg `rustc_nightly`) for the
/// digests of the same generated inputs
pub struct ToolchainSweep {
    pub seed: u64,
    pub batches: usize,
    pub other_bin: std::path::PathBuf,
}
impl Sweep for ToolchainSweep {
    fn name(&self) -> String {
        format!("{} batches of 64 generated inputs digested by the nightly-toolchain harness ({}) and by this one", self.batches, self.other_bin.display())
    }
    fn chunks(&self) -> usize {
        self.batches
    }
    fn run_chunk(&self, chunk: usize, f: &mut dyn FnMut(Case)) {
        use std::io::{BufRead, BufReader, Write};
        let texts = batch_inputs(mix2(self.seed, 0x7001 + chunk as u64), 64);
        let mut child = match std::process::Command::new(&self.other_bin).arg("digest-server").stdin(std::process::Stdio::piped()).stdout(std::process::Stdio::piped()).spawn() {
            Ok(c) => c,
            Err(_) => return,
        };
        {
            let stdin = child.stdin.as_mut().unwrap();
            for t in &texts {
                let hexed: String = t.bytes().map(|b| format!("{b:02x}")).collect();
                let _ = writeln!(stdin, "{hexed}");
            }
        }
        drop(child.stdin.take());
        let out = BufReader::new(child.stdout.take().unwrap());
        let lines: Vec<String> = out.lines().map_while(Result::ok).collect();
        let _ = child.wait();
        for (t, l) in texts.into_iter().zip(lines.into_iter()) {
            f(Case { kind: "xtool".into(), texts: vec![t, l], bytes: vec![], n: 0, gen: "toolchain" });
        }
    }
}

// ------------------------------------------------------------------------------------------ C19 fresh process

/// C19 (c'): case = (source, digest pair computed by the same binary in a FRESH process that
/// lexed nothing else). The checking process has a long and varied call history on this thread
/// (and on 15 others), so any process-global or thread-local state that leaks into results shows
/// up as a difference - also when debug and optimized builds drift the same way.
pub fn check_xfresh(case: &Case, mut vd: Verdict) -> Verdict {
    let src = case.t0();
    let fresh = case.t1();
    let mine = digest_pair(src);
    if mine != fresh {
        vd.violations.push(Violation::new("C19", "history-differs-from-fresh-process", "history-differs-from-fresh-process", format!("this process (long call history) digests {mine}, a fresh process digests {fresh}")));
    }
    vd.label("fresh-process-pair");
    let d = lex_ok(Variant::Rel, src);
    vd.nontrivial = d.map_or(false, |d| d.toks.iter().any(|t| is_macro_token(t.t)) || !d.errs.is_empty());
    vd
}

pub struct FreshProcessSweep {
    pub seed: u64,
    pub batches: usize,
}
impl Sweep for FreshProcessSweep {
    fn name(&self) -> String {
        format!("{} batches of 48 generated inputs: each input is digested by a fresh process of this same binary (no history) and by this process after it has lexed the whole batch twice in different orders", self.batches)
    }
    fn chunks(&self) -> usize {
        self.batches
    }
    fn run_chunk(&self, chunk: usize, f: &mut dyn FnMut(Case)) {
        let texts = batch_inputs(mix2(self.seed, 0xF00D + chunk as u64), 48);
        // build up history on this thread: 600 unrelated inputs, then the batch forwards and backwards, both builds
        let unrelated = batch_inputs(mix2(self.seed, 0xBEEF + chunk as u64), 600);
        for t in unrelated.iter().chain(texts.iter()).chain(texts.iter().rev()) {
            let _ = lex(Variant::Rel, t);
            let _ = lex(Variant::Dbg, t);
        }
        let exe = match std::env::current_exe() {
            Ok(e) => e,
            Err(_) => return,
        };
        for t in texts {
            let hexed: String = t.bytes().map(|b| format!("{b:02x}")).collect();
            let out = std::process::Command::new(&exe).arg("digest-one").arg(&hexed).output();
            if let Ok(o) = out {
                let fresh = String::from_utf8_lossy(&o.stdout).trim().to_string();
                if !fresh.is_empty() {
                    f(Case { kind: "xfresh".into(), texts: vec![t, fresh], bytes: vec![], n: 0, gen: "fresh-process" });
                }
            }
        }
    }
}
