//! C11: macro-free open code against the reference lexer (differential).
use super::{common_labels, distinct_types, Property, Sweep, Tier};
use crate::api::{lex, Lexed, Variant, T};
use crate::core::{Case, Verdict, Violation};
use crate::gen::{corpus, corpus_item, program_window, text};
use crate::oracle::reflex::{is_macro_free, ref_lex, RE, RT};
use crate::oracle::universal::name_start;
use crate::su::Src;

pub struct C11;

const FR: &[&str] = &[
    " ", " ", "\n", "\t", ";", ";", "a", "b1", "_x", "x", "e", "d", "1", "12", "2.5", "1e3", "1e", "1e+", "0fx", "0f", ".", ".5", "..", "'s'", "'it''s'", "\"d\"", "\"", "'", "''", "\"\"", "/*c*/", "/*", "*/", "*", "**", "* c;",
    "&", "&&", "% ", "%", "(", ")", ",", "=", "=*", "/", "datalines;", "cards4;", "datalines", "lines", "CARDS ;", "lines4 ;", "datalines\u{a0};", "cards\u{2003} ;", "lines4\u{85};", "Cards\t\u{3000};", "datalines\n;", ";;;;", ";;", "$f.", "$", "$12.", "$é3.2", "$a1b2.3", "\u{903}", "\u{345}", "\u{24b6}", "\u{2118}", "\u{212e}", "\u{b7}", "\u{301}", "\u{663}", "\u{b2}", "\u{bd}", "\u{2167}", "\u{200b}", "\u{180e}", "\u{212a}", "\u{17f}", "\u{130}", "\u{131}", "\u{df}", "\u{1c5}", "\u{fb01}", "\u{85}", "\u{17f}et", "\u{212a}eep", "%\u{24b6}", "&\u{24b6}", "%\u{903}", "&\u{903}", "x\u{301}", "\u{903}y", "\u{2118}x", "e\u{301}q", "%\u{2118}(", "&\u{212e}.", "\u{b2}x", "x\u{b2}", "1\u{663}", "run\u{b7}", "\u{130}f", "%\u{131}f", "%\u{17f}tr(", "data\u{200b}", "$fmtü5.", "$f𠀀.", "$тест.", "$a€b12.3", "eq", "ne", "and", "or", "not", "in", "lt", "+", "-",
    "<", ">", "<=", ">=", "<>", "><", "|", "||", "^=", "^", "~", "¬", "¬=", "∘", "∘=", "#", "'41'x", "\"4a\"X", "'4'x", "'4,1'x", "'+1'x", "''x", "b", "dt", "n", "t", "é", "😀", "\u{a0}", "\u{2028}", ":", "data", "run", "proc", "_null_",
    "_all_", "corr", "corresponding", "exec", "1x", "{", "}", "[", "]", "?", "@", "!", "!!", "¦", "¦¦", "\r\n", "\\", "`", "\u{1}", "E5", "+5", "-3", "fx", "X", "18446744073709551615", "18446744073709551616", "0FFFFFFFFFFFFFFFFx",
    "0FFFFFFFFFFFFFFFFFx", "123456789012345678901", "1.5e", "1.e5", "1.x", "9a", "9ax", "é1", "a.b", "a-b", "x=1;", "input", "put", "format", "lt=", "ge", "le", "gt",
];

/// make a string macro-free by construction: separate every '%' / '&' run from a following trigger
pub fn sanitize(s: &str) -> String {
    let mut out = String::with_capacity(s.len() + 8);
    let cs: Vec<char> = s.chars().collect();
    for (i, &c) in cs.iter().enumerate() {
        out.push(c);
        if let Some(&n) = cs.get(i + 1) {
            if (c == '%' && (n == '*' || name_start(n))) || (c == '&' && name_start(n)) {
                out.push(' ');
            }
        }
    }
    out
}

fn gen_free(s: &mut Src) -> (&'static str, String) {
    let (n, t) = gen_free_inner(s);
    if s.coin(1, 6) {
        return (n, text::mutate_unicode_ws(s, &t, 110));
    }
    (n, t)
}

/// datalines blocks with every kind of header gap, body and terminator, at various statement positions
fn gen_datalines(s: &mut Src) -> String {
    let mut out = String::new();
    out.push_str(s.pick(&["", "", ";", "x;", "x ", "data a; input x; ", "/*c*/", "* c;", "run;\n", "'s';", "1;"]));
    out.push_str(s.pick(&["datalines", "cards", "lines", "datalines4", "cards4", "lines4", "DATALINES", "Cards4", "LiNeS", "datalines5", "card"]));
    let gaps = 0 + s.below(4);
    for _ in 0..gaps {
        out.push_str(s.pick(&[" ", " ", "\n", "\t", "\r\n", "\u{a0}", "\u{2003}", "\u{85}", "\u{b}", "\u{3000}", "/*c*/", "x"]));
    }
    out.push_str(s.pick(&[";", ";", ";", "", ";;"]));
    let body = s.below(5);
    for _ in 0..body {
        out.push_str(s.pick(&["\n", "1 2 3", "a;b", ";", ";;", ";;;", "'x", "/* c", "é 😀", " ", "* y", "\r\n", "abc"]));
    }
    out.push_str(s.pick(&[";", ";;;;", "", "\n;", "\n;;;;", ";;;", ";ab", "\n;\n"]));
    out.push_str(s.pick(&["", "", " x=1;", "* c;", "\nrun;", "datalines;\n;"]));
    out
}

fn gen_free_inner(s: &mut Src) -> (&'static str, String) {
    let c = corpus();
    if s.coin(1, 10) {
        return ("datalines-shapes", sanitize(&gen_datalines(s)));
    }
    match s.below(10) {
        0 | 1 => ("text-sanitized", sanitize(&text::g_text(s, 40))),
        2 => ("window-sanitized", sanitize(&program_window(s, c, 300))),
        3 => ("soup-sanitized", sanitize(&text::g_soup(s, 10))),
        4 => ("num", {
            let mut t = text::g_num_case(s);
            t = sanitize(&t);
            t
        }),
        _ => {
            let k = 1 + s.below(10);
            let mut out = String::new();
            for _ in 0..k {
                if s.coin(1, 6) {
                    out.push_str(corpus_item(s, c));
                } else {
                    out.push_str(s.pick(FR));
                }
            }
            ("open-soup", sanitize(&out))
        }
    }
}

pub fn compare(src: &str) -> Result<Vec<Violation>, &'static str> {
    let d = match lex(Variant::Rel, src) {
        Lexed::Ok(d) if !d.verif.budget_exceeded => d,
        _ => return Err("no result (C01 territory)"),
    };
    let toks: Vec<RT> = d.toks.iter().map(|t| RT { t: t.t, ch: t.ch, b: t.b as usize }).collect();
    let errs: Vec<RE> = d.errs.iter().map(|e| RE { k: e.k, b: e.b as usize }).collect();
    let (rt, re) = ref_lex(src);
    let mut v = vec![];
    if rt != toks {
        let i = rt.iter().zip(toks.iter()).position(|(a, b)| a != b).unwrap_or(rt.len().min(toks.len()));
        let (r, m) = (rt.get(i), toks.get(i));
        let sig = format!("tokens:ref={:?}:impl={:?}", r.map(|x| (x.t, x.ch)), m.map(|x| (x.t, x.ch)));
        v.push(Violation::new("C11", "tokens", sig, format!("first difference at token {i}: reference {:?}, lexer {:?}", r, m)));
    } else if re != errs {
        let i = re.iter().zip(errs.iter()).position(|(a, b)| a != b).unwrap_or(re.len().min(errs.len()));
        let sig = format!("errors:ref={:?}:impl={:?}", re.get(i).map(|x| x.k), errs.get(i).map(|x| x.k));
        v.push(Violation::new("C11", "errors", sig, format!("first difference at error {i}: reference {:?}, lexer {:?}", re.get(i), errs.get(i))));
    }
    Ok(v)
}

impl Property for C11 {
    fn id(&self) -> &'static str {
        "C11"
    }
    fn rule(&self) -> String {
        "cases: macro-free strings by construction (weighted Unicode text, open-code fragment soup, numeric spellings, real-world windows; every '%'/'&' is separated from a following trigger), plus the exhaustive sweeps over all triples of symbol characters in two statement positions and over every open-code keyword with every kind of neighbour and every ASCII name character in every identifier position; compared: (type, channel, byte offset)* and (error kind, offset)* against the reference lexer; distinct = distinct source; non-trivial = at least 4 tokens of at least 3 types and not a verbatim test-suite literal".into()
    }
    fn cases(&self, tier: Tier) -> u64 {
        match tier {
            Tier::Quick => 1_000_000,
            Tier::Thorough => 10_000_000,
        }
    }
    fn generate(&self, s: &mut Src) -> Case {
        let (g, t) = gen_free(s);
        Case::text(g, t)
    }
    fn check(&self, case: &Case) -> Verdict {
        let src = case.t0();
        let mut vd = Verdict { key: src.to_string(), ..Default::default() };
        vd.label(format!("gen:{}", case.gen));
        if !is_macro_free(src) {
            vd.discard = Some("not macro-free");
            return vd;
        }
        match compare(src) {
            Err(why) => {
                vd.discard = Some(why);
                return vd;
            }
            Ok(v) => vd.violations = v,
        }
        if let Lexed::Ok(d) = lex(Variant::Rel, src) {
            common_labels(&d, &mut vd.labels);
            super::type_labels(&d, &mut vd.labels);
            vd.nontrivial = d.toks.len() >= 4 && distinct_types(&d) >= 3 && !corpus().tests.iter().any(|t| t == src);
            if d.toks.iter().any(|t| t.t == T::DatalinesStart) {
                vd.label("datalines");
            }
            if d.toks.iter().any(|t| t.t == T::PredictedCommentStat) {
                vd.label("predicted-comment");
            }
        }
        vd
    }
    fn sweeps(&self, _tier: Tier, _seed: u64) -> Vec<Box<dyn Sweep>> {
        vec![Box::new(SymTriples), Box::new(KeywordNeighbours)]
    }
    fn assumptions(&self) -> Vec<String> {
        vec!["the reference lexer in harness/src/oracle/reflex.rs is the executable form of the grammar (DESIGN 4.5); it was validated against the implementation and every disagreement traced to code comments/tests".into()]
    }
}

/// every open-code keyword with every kind of neighbour (a word that merely starts or ends with a keyword is an
/// identifier), and every ASCII letter / digit / '_' as first, second and last character of an identifier
pub struct KeywordNeighbours;
impl KeywordNeighbours {
    fn words() -> Vec<String> {
        let mut w: Vec<String> = vec![];
        for &t in crate::api::all_token_types() {
            if crate::oracle::kw::is_kw(t) {
                w.extend(crate::oracle::kw::keywords_of(t).into_iter().map(|k| k.to_ascii_lowercase()));
            }
        }
        w.sort();
        w.dedup();
        w
    }
}
impl Sweep for KeywordNeighbours {
    fn name(&self) -> String {
        format!("exhaustive: each of the {} open-code keywords alone, in upper case, with a letter / digit / '_' / '.' / '(' / ';' glued before or after it, doubled, and every ASCII name character as first, second and last character of an identifier", Self::words().len())
    }
    fn chunks(&self) -> usize {
        Self::words().len() + 1
    }
    fn run_chunk(&self, chunk: usize, f: &mut dyn FnMut(Case)) {
        let words = Self::words();
        if chunk == words.len() {
            for c in "abcdefghijklmnopqrstuvwxyzABCDEFGHIJKLMNOPQRSTUVWXYZ_0123456789".chars() {
                for t in [format!("{c}"), format!("{c}a"), format!("a{c}"), format!("a{c}b"), format!("x = {c}q + q{c};"), format!("ab{c} {c}ab ({c}) {c}.{c} {c}{c}")] {
                    if is_macro_free(&t) {
                        f(Case::text("alphabet", t));
                    }
                }
            }
            return;
        }
        let k = &words[chunk];
        let up = k.to_ascii_uppercase();
        let mut cap = k.clone();
        cap[..1].make_ascii_uppercase();
        for t in [
            k.clone(), up.clone(), cap, format!("{k};"), format!("{k} x;"), format!("x {k} y"), format!("{k}x"), format!("x{k}"), format!("{k}1"), format!("{k}_"), format!("_{k}"), format!("{k}.{k}"),
            format!("{k}({k})"), format!("{k}{k}"), format!("{k} {k}"), format!("{up}X {up}_1 a{up}"), format!("{k}é é{k}"), format!("a.{k} {k}.a"), format!("{k}=1; x={k};"), format!("'{k}' \"{k}\" {k}"),
        ] {
            if is_macro_free(&t) {
                f(Case::text("keyword-neighbours", t));
            }
        }
    }
    fn exhaustive(&self) -> bool {
        true
    }
}

/// every triple of symbol characters, at statement start and after an identifier
pub struct SymTriples;
const SYMS: &[&str] = &["*", "(", ")", "{", "}", "[", "]", "!", "¦", "|", "¬", "^", "~", "∘", "+", "-", "<", ">", ".", ",", ":", "=", "$", "@", "#", "?", ";", "/", "&", "%", "'", "\"", " ", "a", "1"];
impl Sweep for SymTriples {
    fn name(&self) -> String {
        format!("exhaustive: all {}^3 triples of symbol characters (plus space, 'a', '1'), at statement start and after 'x '", SYMS.len())
    }
    fn chunks(&self) -> usize {
        SYMS.len()
    }
    fn run_chunk(&self, chunk: usize, f: &mut dyn FnMut(Case)) {
        for b in SYMS {
            for c in SYMS {
                let t = format!("{}{}{}", SYMS[chunk], b, c);
                if !is_macro_free(&t) {
                    continue;
                }
                f(Case::text("symbol-triples", t.clone()));
                f(Case::text("symbol-triples", format!("x {t}")));
            }
        }
    }
    fn exhaustive(&self) -> bool {
        true
    }
}
