//! C12 (well-formed programs: no diagnostics, no residue), C13 (delimiters are tokens, masked ones
//! are text), C14 (omitted mandatory delimiter) - all on construct-grammar programs, where the
//! generator knows the answer.
use super::{common_labels, Property, Tier};
use crate::api::{lex, tname, Ch, Dump, Lexed, Variant, T};
use crate::core::{Case, Verdict, Violation};
use crate::gen::gram::{Deletable, G, MK};
use crate::su::Src;

pub struct GramProp {
    id: &'static str,
}
impl GramProp {
    pub fn new(id: &'static str) -> Self {
        GramProp { id }
    }
}

pub fn build(bytes: &[u8]) -> G<'_> {
    let mut g = G::new(bytes);
    g.program();
    g
}

pub fn check_marks(g: &G, d: &Dump, v: &mut Vec<Violation>, labels: &mut Vec<String>) {
    let src = &g.out;
    for m in &g.marks {
        let at: Vec<&crate::api::Tok> = d.toks.iter().filter(|t| t.b as usize == m.off && t.e > t.b).collect();
        let ctx = |src: &str| {
            let lo = src[..m.off].char_indices().rev().nth(20).map_or(0, |x| x.0);
            let hi = src[m.off..].char_indices().nth(20).map_or(src.len(), |x| m.off + x.0);
            format!("…{}⟦{}⟧{}…", &src[lo..m.off], &src[m.off..m.off + m.len], &src[m.off + m.len..hi])
        };
        match m.kind {
            MK::Delim(tt, hidden) => {
                let ok = at.iter().any(|t| tname(t.t) == tt && t.e as usize == m.off + m.len && (t.ch == Ch::HIDDEN) == hidden && (hidden || t.ch == Ch::DEFAULT));
                if !ok {
                    v.push(Violation::new("C13", "delimiter-not-token", format!("delimiter-not-token:{tt}:found={:?}", at.first().map(|t| t.t)), format!("expected delimiter token {tt} (hidden={hidden}) at byte {}: {} ; found {:?}", m.off, ctx(src), at.first().map(|t| (t.t, t.ch, t.b, t.e)))));
                }
                labels.push(format!("delim:{tt}"));
            }
            MK::Op(tt) => {
                let ok = at.iter().any(|t| tname(t.t) == tt && t.e as usize == m.off + m.len && t.ch == Ch::DEFAULT);
                if !ok {
                    v.push(Violation::new("C13", "operator-not-token", format!("operator-not-token:{tt}:found={:?}", at.first().map(|t| t.t)), format!("expected operator token {tt} at byte {}: {} ; found {:?}", m.off, ctx(src), at.first().map(|t| (t.t, t.ch, t.b, t.e)))));
                }
                labels.push(format!("op:{tt}"));
            }
            MK::IntOperand => {
                let ok = at.iter().any(|t| t.t == T::IntegerLiteral && t.e as usize == m.off + m.len);
                if !ok {
                    v.push(Violation::new("C13", "integer-operand-not-token", format!("integer-operand-not-token:found={:?}", at.first().map(|t| t.t)), format!("expected IntegerLiteral at byte {}: {} ; found {:?}", m.off, ctx(src), at.first().map(|t| (t.t, t.b, t.e)))));
                }
                labels.push("int-operand".into());
            }
            MK::Word => {
                let inside = d.toks.iter().find(|t| (t.b as usize) >= m.off && (t.b as usize) < m.off + m.len && t.e > t.b && (crate::oracle::kw::is_kw(t.t) || matches!(t.t, T::ASSIGN | T::NE | T::LT | T::GT | T::LE | T::GE | T::PLUS | T::MINUS | T::STAR | T::FSLASH | T::NOT | T::AMP | T::PIPE | T::HASH)));
                if let Some(t) = inside {
                    v.push(Violation::new("C13", "operator-inside-word", format!("operator-inside-word:{:?}", t.t), format!("an operator token {:?} {}..{} starts inside a plain operand word: {}", t.t, t.b, t.e, ctx(src))));
                }
                labels.push("operand-word".into());
            }
            MK::NotInt => {
                if let Some(t) = at.iter().find(|t| t.t == T::IntegerLiteral) {
                    v.push(Violation::new("C13", "composite-operand-is-integer", format!("composite-operand-is-integer:{:?}", t.t), format!("digits glued to a macro variable reference are one operand with it, yet {:?} is an integer-literal token: {}", (t.b, t.e), ctx(src))));
                }
                labels.push("composite-operand".into());
            }
            MK::Masked => {
                let bad = at.iter().find(|t| matches!(t.t, T::COMMA | T::ASSIGN | T::SEMI | T::LPAREN | T::RPAREN));
                if let Some(t) = bad {
                    v.push(Violation::new("C13", "masked-delimiter-is-token", format!("masked-delimiter-is-token:{:?}", t.t), format!("masked delimiter at byte {} became a {:?} token: {}", m.off, t.t, ctx(src))));
                }
                // which path decides: dispatcher (a token starts exactly here) or text scanner (inside a token)
                if at.is_empty() { labels.push("masked:inside-text-token".into()); } else { labels.push("masked:starts-a-token".into()); }
            }
            MK::HiddenWs => {
                let cover = d.toks.iter().filter(|t| (t.b as usize) < m.off + m.len && (t.e as usize) > m.off);
                for t in cover {
                    if t.ch == Ch::DEFAULT {
                        v.push(Violation::new("C13", "gap-on-default-channel", format!("gap-on-default-channel:{:?}", t.t), format!("insignificant whitespace/comment at byte {} is covered by default-channel token {:?} {}..{}: {}", m.off, t.t, t.b, t.e, ctx(src))));
                        break;
                    }
                }
            }
        }
    }
}

/// expected offset of the diagnostic after deleting `d` from `src` (giving `m`)
fn expected_offset(g: &G, d: &Deletable, m: &str) -> usize {
    if let Some(a) = d.at_mark {
        return g.anchors[a] - d.len;
    }
    let mut q = d.off;
    loop {
        let rest = &m[q..];
        if let Some(c) = rest.chars().next() {
            if c.is_whitespace() {
                q += c.len_utf8();
                continue;
            }
            if rest.starts_with("/*") {
                if let Some(e) = rest[2..].find("*/") {
                    q += e + 4;
                    continue;
                }
            }
        }
        break;
    }
    q
}

impl Property for GramProp {
    fn id(&self) -> &'static str {
        self.id
    }
    fn rule(&self) -> String {
        match self.id {
            "C12" => "cases: programs derived from the construct grammar (DESIGN 4.6) from a random choice stream, 1-6 statements, nesting depth <= 6; oracle: no error, end-of-input configuration (hook) is the initial one, in the debug-assertion and the optimized build, with and without macro_sep; plus the statement-complete real-world programs (whole and in ordered pairs); distinct = distinct program text; non-trivial = some construct is nested at least two levels inside a statement (call in argument, call in string, expression in a statement head, statement in a %do/%macro body)".into(),
            "C13" => "cases: construct-grammar programs with recorded marks (delimiters, masked delimiters, operators, integer operands, insignificant gaps); oracle on programs that lex without error: every mark is honoured; plus the sweep 'gap after/before a delimiter token is insignificant' on grammar and real-world programs; distinct = distinct program text (or program + insertion); non-trivial = the program has at least one masked delimiter and at least one real delimiter (sweep cases: the program has a macro token)".into(),
            _ => "cases: a construct-grammar program plus one uniformly chosen deletable mandatory delimiter ('=' of %let / iterative %do, '(' after an argument-taking built-in / %while / %until / %syscall, ',' after the first %scan/%substr argument (two-argument form), '/' of %copy, ';' after %end / %return / %do %while|%until(...), ';' of a free-text statement (%put / %let / %sysexec) directly before another macro statement), (a fifth of the '=' '(' ',' '/' cases instead cut the program right before the delimiter: its error and zero-width token are then expected together at end of input, after the last significant character), or truncation directly before a call's ')', or a cut at a point inside open call parentheses (then every '(' still open - the call's own, nested groups in argument text, expression parentheses, also below an unterminated string expression - must get its zero-width ')' at end of input; a quarter of these cuts are preceded by a closed statement that has a diagnosed fault of its own); oracle: matching 'missing expected' error and zero-width recovery token(s) at the expected offset, and no other 'missing expected' error anywhere (every case is one fault); distinct = distinct mutated text".into(),
        }
    }
    fn stream_len(&self) -> usize {
        220
    }
    fn cases(&self, tier: Tier) -> u64 {
        match (self.id, tier) {
            ("C12", Tier::Quick) => 250_000,
            (_, Tier::Quick) => 500_000,
            ("C12", Tier::Thorough) => 3_000_000,
            (_, Tier::Thorough) => 6_000_000,
        }
    }
    fn generate(&self, s: &mut Src) -> Case {
        let n = s.below(65536) as u64;
        Case::gram("gram", s.rest().to_vec(), n)
    }
    fn check(&self, case: &Case) -> Verdict {
        // text-based replays (independent of later changes to the grammar's choice-stream layout)
        if case.kind == "text" && self.id == "C12" {
            return check_c12_text(case.t0());
        }
        if case.kind == "expect-missing" && self.id == "C14" {
            return check_c14_text(case);
        }
        if case.kind == "expect-open-parens" && self.id == "C14" {
            return check_c14_open_parens(case.t0(), case.n as usize);
        }
        if case.kind == "expect-word" && self.id == "C13" {
            // texts = [program, word], n = byte offset of the word: no operator token starts inside it
            let (m, w, off) = (case.t0(), case.t1(), case.n as usize);
            let mut vd = Verdict { key: m.to_string(), nontrivial: true, ..Default::default() };
            let d = match lex(Variant::Rel, m) {
                Lexed::Ok(d) if !d.verif.budget_exceeded => d,
                _ => return Verdict::discard("no result (C01 territory)", m.to_string()),
            };
            if let Some(t) = d.toks.iter().find(|t| (t.b as usize) >= off && (t.b as usize) < off + w.len() && t.e > t.b && (crate::oracle::kw::is_kw(t.t) || matches!(t.t, T::ASSIGN | T::NE | T::LT | T::GT | T::LE | T::GE | T::PLUS | T::MINUS | T::STAR | T::FSLASH | T::NOT | T::AMP | T::PIPE | T::HASH))) {
                vd.violations.push(Violation::new("C13", "operator-inside-word", format!("operator-inside-word:{:?}", t.t), format!("an operator token {:?} {}..{} starts inside the plain operand word {w:?} of {m:?}", t.t, t.b, t.e)));
            }
            return vd;
        }
        if case.kind == "gap" && self.id == "C13" {
            return check_gap_after_delimiter(case);
        }
        if case.kind != "gram" {
            return Verdict::discard("case kind not applicable to this property", case.t0().to_string());
        }
        // C14 also injects its faults into a form the lexer accepts although SAS does not (an iterative %do with a trailing
        // %while / %until): it is not part of C12's "well-formed" programs
        let g = if self.id == "C14" { let mut g = G::new(&case.bytes); g.lenient = true; g.program(); g } else { build(&case.bytes) };
        let src = g.out.clone();
        let mut vd = Verdict { key: src.clone(), ..Default::default() };
        for f in &g.feats {
            vd.label(format!("feat:{f}"));
        }
        vd.label(format!("depth:{}", g.max_depth.min(9)));
        if self.id == "C14" {
            return check_c14(&g, case.n, vd);
        }
        let variants: &[Variant] = if self.id == "C12" { &[Variant::Rel, Variant::Dbg, Variant::Nosep, Variant::DbgNosep] } else { &[Variant::Rel] };
        for &vr in variants {
            let d = match lex(vr, &src) {
                Lexed::Ok(d) if !d.verif.budget_exceeded => d,
                Lexed::Panic(p) if self.id == "C12" => {
                    // a well-formed program must lex: a panic here is also a C12 failure ("produces no error at all")
                    vd.violations.push(Violation::new("C12", "no-result", format!("no-result:{}", super::univ::panic_sig(vr, &p)), format!("{} build panicked on a well-formed program: {}", vr.name(), p.msg.lines().next().unwrap_or(""))));
                    continue;
                }
                _ => {
                    if self.id == "C12" {
                        vd.violations.push(Violation::new("C12", "no-result", format!("no-result:budget:{}", vr.name()), format!("{} build did not finish within the iteration budget on a well-formed program", vr.name())));
                    } else {
                        vd.discard = Some("no result (C01/C12 territory)");
                    }
                    continue;
                }
            };
            if vr == Variant::Rel {
                common_labels(&d, &mut vd.labels);
            }
            if self.id == "C12" {
                if let Some(e) = d.errs.first() {
                    let prev = d.toks[..].iter().rev().find(|t| t.b <= e.b && t.ch == Ch::DEFAULT && !t.empty()).map(|t| t.t);
                    vd.violations.push(Violation::new("C12", "error-on-well-formed", format!("error-on-well-formed:{:?}:after={:?}", e.k, prev), format!("[{}] {} error(s), first {:?} at byte {} (…{}⟦⟧{}…)", vr.name(), d.errs.len(), e.k, e.b, &src[floor(&src, (e.b as usize).saturating_sub(25))..e.b as usize], &src[e.b as usize..ceil(&src, (e.b as usize + 25).min(src.len()))])));
                } else if !d.verif.end_is_initial() {
                    vd.violations.push(Violation::new("C12", "residual-state", format!("residual-state:stack={}:nest={}:pending={:?}:ckpt={}", d.verif.end_mode_stack.join(">"), d.verif.end_macro_nesting_level, d.verif.end_pending_stat_stack, d.verif.end_checkpoint_live), format!("[{}] at end of input the lexer is not in its initial configuration: mode stack {:?}, macro nesting {}, pending-statement stack {:?}, checkpoint live {}", vr.name(), d.verif.end_mode_stack, d.verif.end_macro_nesting_level, d.verif.end_pending_stat_stack, d.verif.end_checkpoint_live)));
                }
            } else {
                if !d.errs.is_empty() {
                    vd.discard = Some("program lexes with errors (C12 territory)");
                    return vd;
                }
                check_marks(&g, &d, &mut vd.violations, &mut vd.labels);
            }
        }
        vd.violations.dedup_by(|a, b| a.sig == b.sig);
        vd.nontrivial = if self.id == "C12" {
            g.max_depth >= 3
        } else {
            g.marks.iter().any(|m| m.kind == MK::Masked) && g.marks.iter().any(|m| matches!(m.kind, MK::Delim(..)))
        };
        vd
    }
    fn sweeps(&self, tier: Tier, seed: u64) -> Vec<Box<dyn super::Sweep>> {
        match self.id {
            "C12" => vec![Box::new(RealWorld)],
            "C14" => vec![Box::new(RealDeletions)],
            "C13" => vec![Box::new(GapAfterDelimiter { seed, programs: if tier == Tier::Thorough { 20_000 } else { 2_000 } })],
            _ => vec![],
        }
    }
    fn assumptions(&self) -> Vec<String> {
        vec!["the construct grammar (harness/src/gen/gram.rs, DESIGN 4.6) only derives programs that SAS and the lexer's documented heuristics accept; its preconditions are listed in DESIGN 4.6".into()]
    }
}

fn floor(s: &str, mut i: usize) -> usize {
    while !s.is_char_boundary(i) {
        i -= 1;
    }
    i
}
fn ceil(s: &str, mut i: usize) -> usize {
    while !s.is_char_boundary(i) {
        i += 1;
    }
    i
}

/// C14, end-of-input form: the program is cut right before a mandatory delimiter (the delimiter and all that
/// follows it are left out). The delimiter is then expected at end of input: its error must be reported and its
/// zero-width recovery token emitted at the same place, somewhere between the end of the last significant
/// character and the end of input (whitespace and comments may precede it).
fn check_c14_cut(g: &G, d: &crate::gen::gram::Deletable, mut vd: Verdict) -> Verdict {
    let m = g.out[..d.off].to_string();
    let mut sig = m.trim_end();
    while sig.ends_with("*/") {
        match sig.rfind("/*") {
            Some(p) => sig = sig[..p].trim_end(),
            None => break,
        }
    }
    let lo = sig.len();
    vd.key = format!("{m}\u{241e}cut");
    vd.label(format!("cut-before:{}:{}", d.tok, d.err));
    let r = match lex(Variant::Rel, &m) {
        Lexed::Ok(r) if !r.verif.budget_exceeded => r,
        _ => {
            vd.discard = Some("no result (C01 territory)");
            return vd;
        }
    };
    let show = format!("{}⟦end of input; {} expected⟧", &m[floor(&m, m.len().saturating_sub(40))..], d.tok);
    match r.errs.iter().find(|e| format!("{:?}", e.k) == d.err && (e.b as usize) >= lo && (e.b as usize) <= m.len()) {
        None => vd.violations.push(Violation::new("C14", "not-diagnosed", format!("not-diagnosed:{}:cut", d.err), format!("expected {} at end of input (bytes {lo}..={}): {show}; errors: {:?}", d.err, m.len(), r.errs.iter().map(|e| (e.k, e.b)).collect::<Vec<_>>()))),
        Some(e) => {
            if !r.toks.iter().any(|t| tname(t.t) == d.tok && t.b == e.b && t.e == e.b) {
                vd.violations.push(Violation::new("C14", "no-recovery-token", format!("no-recovery-token:{}:cut", d.tok), format!("expected zero-width {} at byte {}: {show}", d.tok, e.b)));
            }
        }
    }
    vd
}

fn check_c14(g: &G, sel: u64, mut vd: Verdict) -> Verdict {
    let src = &g.out;
    // the closing parentheses of calls / definitions: truncating right before one leaves a ')' open at end of input
    let rparens: Vec<(usize, bool)> = g.marks.iter().filter_map(|m| match m.kind { MK::Delim("RPAREN", hidden) => Some((m.off, hidden)), _ => None }).collect();
    let total = g.dels.len() + rparens.len() + g.trunc_points.len();
    if total == 0 {
        vd.discard = Some("program has no deletable mandatory delimiter");
        return vd;
    }
    let pick = ((sel as usize) * total) >> 16;
    if pick >= g.dels.len() + rparens.len() {
        // cut inside open call parentheses: every '(' still open (the call's own, nested groups in
        // argument text, expression parentheses) gets its zero-width ')' at end of input
        let (off, open, calls, text_groups) = g.trunc_points[pick - g.dels.len() - rparens.len()];
        // sometimes an earlier, closed statement with a fault of its own precedes the cut program: what was diagnosed
        // there must not change how the parentheses still open at the end are diagnosed
        const FAULTY_PREFIXES: &[&str] = &["%put %upcase x);", "%let a 1;", "%put %scan(a 1);", "%put %eval 1);\n", "%put %str a);"];
        let m = if (sel >> 3) % 4 == 0 { vd.label("earlier-fault-before-cut"); format!("{}{}", FAULTY_PREFIXES[(sel as usize >> 5) % FAULTY_PREFIXES.len()], &src[..off]) } else { src[..off].to_string() };
        vd.key = m.clone();
        vd.label(format!("truncated-inside-parens:open={}", open.min(6)));
        let r = match lex(Variant::Rel, &m) {
            Lexed::Ok(r) if !r.verif.budget_exceeded => r,
            _ => {
                vd.discard = Some("no result (C01 territory)");
                return vd;
            }
        };
        let exp = m.len();
        let virt = r.toks.iter().filter(|t| t.t == T::RPAREN && t.empty() && t.b as usize == exp).count();
        let has_err = r.errs.iter().any(|e| e.k == crate::api::EK::MissingExpectedRParen && e.b as usize == exp);
        let show = format!("{}⟦end of input, {open} '(' open⟧", &m[floor(&m, m.len().saturating_sub(50))..]);
        if !has_err {
            vd.violations.push(Violation::new("C14", "not-diagnosed", "not-diagnosed:MissingExpectedRParen:inside-parens", format!("expected MissingExpectedRParen at end of input (byte {exp}): {show}; errors: {:?}", r.errs.iter().map(|e| (e.k, e.b)).collect::<Vec<_>>())));
        } else if virt > open || virt + text_groups < open {
            // every parenthesis that is a token (a call's own, expression parentheses) gets its zero-width ')'; groups
            // nested in argument *text* are not delimiters of a construct - the lexer closes them too, but a lexer that
            // only closes the constructs is within the property
            vd.violations.push(Violation::new("C14", "no-recovery-token", "no-recovery-token:RPAREN:count", format!("{open} parentheses ({text_groups} of them groups inside argument text) are open at end of input but {virt} zero-width RPAREN tokens were inserted: {show}")));
        } else {
            // every call / built-in / definition whose own ')' is missing is diagnosed (nested groups in argument text and
            // expression parentheses always get their recovery token, and sometimes a diagnostic of their own)
            let nerr = r.errs.iter().filter(|e| e.k == crate::api::EK::MissingExpectedRParen && e.b as usize == exp).count();
            if nerr < calls || nerr > open {
                vd.violations.push(Violation::new("C14", "not-diagnosed", "not-diagnosed:MissingExpectedRParen:count", format!("{calls} calls ({open} parentheses) are still open at end of input but {nerr} MissingExpectedRParen errors were reported: {show}")));
            }
        }
        vd.nontrivial = true;
        return vd;
    }
    if pick >= g.dels.len() {
        let (off, hidden) = rparens[pick - g.dels.len()];
        let m = src[..off].to_string();
        vd.key = m.clone();
        vd.label("truncated-before:RPAREN");
        let r = match lex(Variant::Rel, &m) {
            Lexed::Ok(r) if !r.verif.budget_exceeded => r,
            _ => {
                vd.discard = Some("no result (C01 territory)");
                return vd;
            }
        };
        let exp = m.len();
        let has_err = r.errs.iter().any(|e| e.k == crate::api::EK::MissingExpectedRParen && e.b as usize == exp);
        let has_tok = r.toks.iter().any(|t| t.t == T::RPAREN && t.b as usize == exp && t.empty() && (t.ch == Ch::HIDDEN) == hidden);
        let show = format!("{}⟦end of input before ')'⟧", &m[floor(&m, m.len().saturating_sub(40))..]);
        if !has_err {
            vd.violations.push(Violation::new("C14", "not-diagnosed", "not-diagnosed:MissingExpectedRParen:at-eof", format!("expected MissingExpectedRParen at end of input (byte {exp}): {show}; errors: {:?}", r.errs.iter().map(|e| (e.k, e.b)).collect::<Vec<_>>())));
        } else if !has_tok {
            vd.violations.push(Violation::new("C14", "no-recovery-token", "no-recovery-token:RPAREN:at-eof", format!("expected zero-width RPAREN (hidden={hidden}) at end of input (byte {exp}): {show}")));
        }
        vd.nontrivial = true;
        return vd;
    }
    let d = g.dels[pick].clone();
    if d.tok != "SEMI" && d.tok != "RPAREN" && (sel / 2) % 5 == 0 {
        return check_c14_cut(g, &d, vd);
    }
    let b = src.as_bytes();
    if d.tok == "ASSIGN" {
        // generator precondition: a name that ends in an argument-less call, followed (after the missing '=') by '(':
        // the parenthesis becomes the call's argument list, so the name is simply longer
        let mut before = src[..d.off].trim_end();
        while before.ends_with("*/") {
            match before.rfind("/*") {
                Some(p) => before = before[..p].trim_end(),
                None => break,
            }
        }
        let bare_call = before.rfind('%').map_or(false, |p| before[p + 1..].chars().next().is_some() && before[p + 1..].chars().all(|c| c.is_alphanumeric() || c == '_'));
        let mut q = d.off + d.len;
        loop {
            let rest = &src[q..];
            match rest.chars().next() {
                Some(c) if c.is_whitespace() => q += c.len_utf8(),
                Some(_) if rest.starts_with("/*") => match rest[2..].find("*/") { Some(e) => q += e + 4, None => break },
                _ => break,
            }
        }
        if bare_call && src[q..].starts_with('(') {
            vd.discard = Some("a name ending in an argument-less call followed by '(' (the call takes the parenthesis)");
            return vd;
        }
    }
    let ws_adj = (d.off > 0 && (b[d.off - 1] as char).is_ascii_whitespace()) || (d.off + d.len < b.len() && (b[d.off + d.len] as char).is_ascii_whitespace());
    let mut m = src.clone();
    // the delimiter is left out; without whitespace next to it a blank takes its place, otherwise
    // the neighbours would glue into another token (comments do not end a name expression)
    // ... except where what follows cannot continue the name expression anyway: a macro quoting function or a quote
    let glue_safe = d.tok == "ASSIGN" && {
        let rest = src[d.off + d.len..].to_ascii_lowercase();
        ["%str(", "%nrstr(", "%quote(", "%nrquote(", "%bquote(", "%nrbquote(", "%superq(", "\"", "'"].iter().any(|p| rest.starts_with(p))
    };
    let fill = if ws_adj || (glue_safe && sel % 2 == 0) { "" } else { " " };
    if !ws_adj && fill.is_empty() {
        vd.label("deleted-without-blank(glued to a quoting function / quote)");
    } else if !ws_adj {
        vd.label("blank-in-place-of-delimiter");
    }
    m.replace_range(d.off..d.off + d.len, fill);
    let exp = match d.at_mark {
        Some(a) => g.anchors[a] - d.len + fill.len(),
        None => expected_offset(g, &d, &m),
    };
    let at_eof = exp >= m.len();
    if !at_eof && d.at_mark.is_none() && m[exp..].starts_with(&src[d.off..d.off + d.len]) {
        vd.discard = Some("the next significant character is the same delimiter");
        return vd;
    }
    vd.key = m.clone();
    vd.label(format!("deleted:{}:{}", d.tok, d.err));
    let r = match lex(Variant::Rel, &m) {
        Lexed::Ok(r) if !r.verif.budget_exceeded => r,
        _ => {
            vd.discard = Some("no result (C01 territory)");
            return vd;
        }
    };
    let has_err = r.errs.iter().any(|e| format!("{:?}", e.k) == d.err && e.b as usize == exp);
    let has_tok = r.toks.iter().any(|t| tname(t.t) == d.tok && t.b as usize == exp && t.e as usize == exp);
    let show = format!("{}⟦{} deleted⟧{}", &m[floor(&m, d.off.saturating_sub(30))..d.off], &src[d.off..d.off + d.len], &m[d.off..ceil(&m, (d.off + 30).min(m.len()))]);
    if d.tok == "SEMI" && at_eof {
        vd.label("semi-at-eof(no error expected)");
        if !has_tok {
            vd.violations.push(Violation::new("C14", "no-virtual-semi-at-eof", "no-virtual-semi-at-eof", format!("no virtual SEMI at end of input: {show}")));
        }
    } else if !has_err {
        vd.violations.push(Violation::new("C14", "not-diagnosed", format!("not-diagnosed:{}", d.err), format!("expected {} at byte {exp}: {show}; errors: {:?}", d.err, r.errs.iter().map(|e| (e.k, e.b)).collect::<Vec<_>>())));
    } else if !has_tok {
        vd.violations.push(Violation::new("C14", "no-recovery-token", format!("no-recovery-token:{}", d.tok), format!("expected zero-width {} at byte {exp}: {show}", d.tok)));
    } else {
        // one left-out delimiter in an otherwise well-formed program is one fault: no other delimiter may be reported
        // as missing (the recovery must not corrupt how the rest of the program is lexed)
        let others: Vec<_> = r.errs.iter().filter(|e| format!("{:?}", e.k).starts_with("MissingExpected") && !(format!("{:?}", e.k) == d.err && e.b as usize == exp)).map(|e| (e.k, e.b)).collect();
        vd.label(format!("further-missing-expected-errors:{}:{}", d.tok, others.len().min(3)));
        if !others.is_empty() {
            vd.violations.push(Violation::new("C14", "spurious-missing-expected", format!("spurious-missing-expected:{}", d.tok), format!("besides the expected {} at byte {exp}, delimiters that are present are reported as missing: {others:?}: {show}", d.err)));
        }
    }
    vd.nontrivial = true;
    vd
}

/// C12 on a given program text (replays): no error, initial configuration at the end, both builds
fn check_c12_text(src: &str) -> Verdict {
    let mut vd = Verdict { key: src.to_string(), nontrivial: true, ..Default::default() };
    for vr in [Variant::Rel, Variant::Dbg, Variant::Nosep, Variant::DbgNosep] {
        match lex(vr, src) {
            Lexed::Ok(d) if !d.verif.budget_exceeded => {
                if let Some(e) = d.errs.first() {
                    vd.violations.push(Violation::new("C12", "error-on-well-formed", format!("error-on-well-formed:{:?}", e.k), format!("[{}] {:?} at byte {}", vr.name(), e.k, e.b)));
                } else if !d.verif.end_is_initial() {
                    vd.violations.push(Violation::new("C12", "residual-state", "residual-state", format!("[{}] mode stack {:?}, nesting {}, pending {:?}, checkpoint {}", vr.name(), d.verif.end_mode_stack, d.verif.end_macro_nesting_level, d.verif.end_pending_stat_stack, d.verif.end_checkpoint_live)));
                }
            }
            Lexed::Panic(p) => vd.violations.push(Violation::new("C12", "no-result", format!("no-result:{}", super::univ::panic_sig(vr, &p)), format!("{} build panicked: {}", vr.name(), p.msg.lines().next().unwrap_or("")))),
            _ => vd.violations.push(Violation::new("C12", "no-result", format!("no-result:budget:{}", vr.name()), format!("{} build exceeded the iteration budget", vr.name()))),
        }
    }
    vd.violations.dedup_by(|a, b| a.sig == b.sig);
    vd
}

/// C14 on a given mutated text: texts = [text, error kind name, token type name], n = expected offset
fn check_c14_text(case: &Case) -> Verdict {
    let (m, err, tok) = (case.t0(), case.t1(), case.texts.get(2).map(|s| s.as_str()).unwrap_or(""));
    let exp = case.n as usize;
    let mut vd = Verdict { key: m.to_string(), nontrivial: true, ..Default::default() };
    let r = match lex(Variant::Rel, m) {
        Lexed::Ok(r) if !r.verif.budget_exceeded => r,
        _ => return Verdict::discard("no result (C01 territory)", m.to_string()),
    };
    let has_err = r.errs.iter().any(|e| format!("{:?}", e.k) == err && e.b as usize == exp);
    let has_tok = r.toks.iter().any(|t| tname(t.t) == tok && t.b as usize == exp && t.e as usize == exp);
    if !has_err {
        vd.violations.push(Violation::new("C14", "not-diagnosed", format!("not-diagnosed:{err}"), format!("expected {err} at byte {exp} of {m:?}; errors: {:?}", r.errs.iter().map(|e| (e.k, e.b)).collect::<Vec<_>>())));
    } else if !has_tok {
        vd.violations.push(Violation::new("C14", "no-recovery-token", format!("no-recovery-token:{tok}"), format!("expected zero-width {tok} at byte {exp} of {m:?}")));
    } else {
        let others: Vec<_> = r.errs.iter().filter(|e| format!("{:?}", e.k).starts_with("MissingExpected") && !(format!("{:?}", e.k) == err && e.b as usize == exp)).map(|e| (e.k, e.b)).collect();
        vd.label(format!("real:further-missing-expected-errors:{tok}:{}", others.len().min(3)));
        if !others.is_empty() && case.gen == "real-world-deletion" {
            vd.violations.push(Violation::new("C14", "spurious-missing-expected", format!("spurious-missing-expected:{tok}"), format!("besides the expected {err} at byte {exp}, delimiters that are present are reported as missing: {others:?} in {:?}", &m[crate::props::gramp::floor(m, exp.saturating_sub(40))..crate::props::gramp::ceil(m, (exp + 20).min(m.len()))])));
        }
    }
    vd
}

/// C14 on a given text that ends with `open` parentheses still open: the error and `open` zero-width ')' at end of input
fn check_c14_open_parens(m: &str, open: usize) -> Verdict {
    let mut vd = Verdict { key: m.to_string(), nontrivial: true, ..Default::default() };
    let r = match lex(Variant::Rel, m) {
        Lexed::Ok(r) if !r.verif.budget_exceeded => r,
        _ => return Verdict::discard("no result (C01 territory)", m.to_string()),
    };
    let exp = m.len();
    let virt = r.toks.iter().filter(|t| t.t == T::RPAREN && t.empty() && t.b as usize == exp).count();
    let has_err = r.errs.iter().any(|e| e.k == crate::api::EK::MissingExpectedRParen && e.b as usize == exp);
    if !has_err {
        vd.violations.push(Violation::new("C14", "not-diagnosed", "not-diagnosed:MissingExpectedRParen:inside-parens", format!("expected MissingExpectedRParen at end of input of {m:?}; errors: {:?}", r.errs.iter().map(|e| (e.k, e.b)).collect::<Vec<_>>())));
    } else if virt != open {
        vd.violations.push(Violation::new("C14", "no-recovery-token", "no-recovery-token:RPAREN:count", format!("{open} parentheses are open at end of input of {m:?} but {virt} zero-width RPAREN tokens were inserted")));
    }
    vd
}

/// C14 on code written by people: every real-world program and test-suite literal that lexes without error is taken
/// as it is; the lexer's own tokens locate its mandatory delimiters (the '=' of %let and of an iterative %do, the '('
/// directly after an argument-taking built-in, the ';' after %end / %return, the '/' of %copy); each is left out in turn
/// (a blank in its place unless whitespace is adjacent) and the matching error + recovery token are expected at the
/// next significant character. Shapes the construct grammar does not derive come in this way.
pub struct RealDeletions;
const ARG_BUILTINS: &[&str] = &["EVAL", "SYSEVALF", "SCAN", "QSCAN", "KSCAN", "QKSCAN", "SUBSTR", "QSUBSTR", "KSUBSTR", "QKSUBSTR", "UPCASE", "QUPCASE", "LOWCASE", "QLOWCASE", "LENGTH", "INDEX", "QUOTE", "NRQUOTE", "BQUOTE", "NRBQUOTE", "SUPERQ", "UNQUOTE", "SYMEXIST", "SYSGET", "CMPRES", "QCMPRES", "LEFT", "QLEFT", "TRIM", "QTRIM", "DATATYP", "SYSFUNC", "QSYSFUNC", "STR", "NRSTR", "VERIFY", "KUPCASE", "KLENGTH", "KINDEX", "SYSPROD", "SYMGLOBL", "SYMLOCAL", "SYSMACEXEC", "SYSMACEXIST", "WHILE", "UNTIL"];
fn real_sources() -> Vec<String> {
    let c = crate::gen::corpus();
    let mut v: Vec<String> = c.programs.iter().map(|(_, t)| t.clone()).collect();
    v.extend(c.tests.iter().cloned());
    v
}
impl super::Sweep for RealDeletions {
    fn name(&self) -> String {
        format!("single-delimiter deletions located by the lexer's own tokens in the {} real-world programs and test-suite literals that lex without error", real_sources().len())
    }
    fn chunks(&self) -> usize {
        real_sources().len().div_ceil(20)
    }
    fn run_chunk(&self, chunk: usize, f: &mut dyn FnMut(Case)) {
        let srcs = real_sources();
        for src in srcs.iter().skip(chunk * 20).take(20) {
            if src.len() > 200_000 {
                continue;
            }
            let d = match lex(Variant::Rel, src) {
                Lexed::Ok(d) if d.errs.is_empty() && !d.verif.budget_exceeded => d,
                _ => continue,
            };
            let n = d.toks.len();
            let hidden = |t: &crate::api::Tok| t.t == T::WS || t.ch == Ch::COMMENT;
            let next_sig = |mut j: usize| {
                while j < n && hidden(&d.toks[j]) {
                    j += 1;
                }
                j
            };
            let mut dels: Vec<(usize, &'static str, &'static str)> = vec![]; // token index, error, token
            for i in 0..n {
                let t = &d.toks[i];
                let raw = &src[t.b as usize..t.e as usize];
                match t.t {
                    T::KwmLet => {
                        if let Some(j) = (i + 1..n).take_while(|&j| d.toks[j].t != T::SEMI).find(|&j| d.toks[j].t == T::ASSIGN) {
                            dels.push((j, "MissingExpectedAssign", "ASSIGN"));
                        }
                    }
                    T::KwmDo => {
                        let stop = (i + 1..n).find(|&j| d.toks[j].t == T::SEMI).unwrap_or(n);
                        if let Some(to) = (i + 1..stop).find(|&j| d.toks[j].t == T::KwmTo) {
                            if let Some(j) = (i + 1..to).find(|&j| d.toks[j].t == T::ASSIGN) {
                                dels.push((j, "MissingExpectedAssign", "ASSIGN"));
                            }
                        }
                    }
                    T::KwmEnd | T::KwmReturn => {
                        let j = next_sig(i + 1);
                        if j < n && d.toks[j].t == T::SEMI && !d.toks[j].empty() {
                            dels.push((j, "MissingExpectedSemiOrEOF", "SEMI"));
                        }
                    }
                    T::KwmCopy => {
                        if let Some(j) = (i + 1..n).take_while(|&j| d.toks[j].t != T::SEMI).find(|&j| d.toks[j].t == T::FSLASH) {
                            dels.push((j, "MissingExpectedFSlash", "FSLASH"));
                        }
                    }
                    x if crate::oracle::kw::is_kwm(x) && raw.len() > 1 && ARG_BUILTINS.contains(&raw[1..].to_ascii_uppercase().as_str()) => {
                        let j = next_sig(i + 1);
                        if j < n && d.toks[j].t == T::LPAREN && !d.toks[j].empty() {
                            dels.push((j, "MissingExpectedLParen", "LPAREN"));
                        }
                    }
                    _ => {}
                }
            }
            let b = src.as_bytes();
            for (j, err, tok) in dels.into_iter().take(400) {
                let (off, len) = (d.toks[j].b as usize, (d.toks[j].e - d.toks[j].b) as usize);
                if len == 0 {
                    continue;
                }
                let ws_adj = (off > 0 && (b[off - 1] as char).is_ascii_whitespace()) || (off + len < b.len() && (b[off + len] as char).is_ascii_whitespace());
                let fill = if ws_adj { "" } else { " " };
                let mut m = src.clone();
                m.replace_range(off..off + len, fill);
                // the error is expected at the next significant character
                let mut q = off;
                loop {
                    let rest = &m[q..];
                    match rest.chars().next() {
                        Some(c) if c.is_whitespace() => q += c.len_utf8(),
                        Some(_) if rest.starts_with("/*") => match rest[2..].find("*/") {
                            Some(e) => q += e + 4,
                            None => break,
                        },
                        _ => break,
                    }
                }
                if q >= m.len() && tok == "SEMI" {
                    continue; // end of input: no error is expected for a missing final ';'
                }
                if m[q..].starts_with(&src[off..off + len]) {
                    continue; // the next significant character is the same delimiter
                }
                let mut c = Case::text("real-world-deletion", m);
                c.kind = "expect-missing".into();
                c.texts.push(err.to_string());
                c.texts.push(tok.to_string());
                c.n = q as u64;
                f(c);
            }
        }
    }
}

/// C12 on the statement-complete real-world programs of the corpus (whole files, and each file
/// followed by each other file): valid SAS written by people, constructs the grammar does not model
pub struct RealWorld;
/// programs that use macro statements inside %sysfunc arguments: the lexer documents this as
/// unsupported (OpenCodeRecursionError), so they are not "documented constructs"
const NOT_IN_SCOPE: &[&str] = &["digit_classifier.sas", "digit_classifier_advanced.sas", "digit_recognizer.sas"];
pub fn real_programs() -> Vec<(String, String)> {
    crate::gen::corpus().programs.iter().filter(|(n, t)| !NOT_IN_SCOPE.contains(&n.as_str()) && t.trim_end().ends_with(';')).cloned().collect()
}
impl super::Sweep for RealWorld {
    fn name(&self) -> String {
        format!("the {} statement-complete real-world programs of corpus/ (whole files, and every ordered pair of them concatenated)", real_programs().len())
    }
    fn chunks(&self) -> usize {
        real_programs().len()
    }
    fn run_chunk(&self, chunk: usize, f: &mut dyn FnMut(Case)) {
        let ps = real_programs();
        let (_, a) = &ps[chunk];
        f(Case::text("real-world-file", a.clone()));
        for (j, (_, b)) in ps.iter().enumerate() {
            if j != chunk {
                f(Case::text("real-world-pair", format!("{a}\n{b}")));
            }
        }
    }
}

// ---------------------------------------------------------------------------------------------
// C13, last sentence, as a metamorphic relation that needs no generator knowledge: in a program
// that lexes without error, a blank / line feed / comment inserted directly after a delimiter
// token (',' '(' '=' on the default channel) is insignificant: the default-channel tokens keep
// their types and texts, the inserted gap lands on the hidden / comment channel, no error appears.
// Case kind "gap": texts = [program, inserted gap], n = byte offset of the insertion.

fn default_tokens(src: &str, d: &Dump) -> Vec<(T, String)> {
    d.toks.iter().filter(|t| t.ch == Ch::DEFAULT).map(|t| (t.t, src[t.b as usize..t.e as usize].to_string())).collect()
}

fn check_gap_after_delimiter(case: &Case) -> Verdict {
    let (src, gap) = (case.t0(), case.t1());
    let at = case.n as usize;
    let mut vd = Verdict { key: format!("{}\u{241e}{}@{}", crate::core::trunc(src, 160), gap.escape_debug(), at), ..Default::default() };
    if at > src.len() || !src.is_char_boundary(at) {
        return Verdict::discard("insertion offset invalid", vd.key);
    }
    let d0 = match lex(Variant::Rel, src) {
        Lexed::Ok(d) if !d.verif.budget_exceeded && d.errs.is_empty() => d,
        _ => return Verdict::discard("base program does not lex cleanly (not in the domain of this relation)", vd.key),
    };
    let before = case.bytes.first() == Some(&1);
    let tok = if before {
        // the insertion point must be the start of '(' after a macro call / built-in name, or of a '=' token
        gap_before_sites(&d0).into_iter().find(|t| t.b as usize == at)
    } else {
        // the insertion point must be the end of a default-channel delimiter token
        d0.toks.iter().find(|t| t.e as usize == at && !t.empty() && t.ch == Ch::DEFAULT && matches!(t.t, T::COMMA | T::LPAREN | T::ASSIGN))
    };
    let Some(tok) = tok else {
        return Verdict::discard("no delimiter token at the insertion offset", vd.key);
    };
    let mut m = String::with_capacity(src.len() + gap.len());
    m.push_str(&src[..at]);
    m.push_str(gap);
    m.push_str(&src[at..]);
    let d1 = match lex(Variant::Rel, &m) {
        Lexed::Ok(d) if !d.verif.budget_exceeded => d,
        _ => return Verdict::discard("no result (C01 territory)", vd.key),
    };
    vd.label(format!("gap-{}:{:?}", if before { "before" } else { "after" }, tok.t));
    let show = format!("…{}⟦{}⟧{}…", &src[floor(src, at.saturating_sub(30))..at], gap.escape_debug(), &src[at..ceil(src, (at + 25).min(src.len()))]);
    if let Some(e) = d1.errs.first() {
        vd.violations.push(Violation::new("C13", "gap-after-delimiter", format!("gap-after-delimiter:error:{:?}:after={:?}", e.k, tok.t), format!("a gap inserted after a {:?} token produces {:?} at byte {}: {show}", tok.t, e.k, e.b)));
    } else if default_tokens(src, &d0) != default_tokens(&m, &d1) {
        let (a, b) = (default_tokens(src, &d0), default_tokens(&m, &d1));
        let i = a.iter().zip(b.iter()).position(|(x, y)| x != y).unwrap_or(a.len().min(b.len()));
        vd.violations.push(Violation::new("C13", "gap-after-delimiter", format!("gap-after-delimiter:tokens:after={:?}", tok.t), format!("a gap inserted after a {:?} token changes the default-channel tokens: {show}; first difference: {:?} vs {:?}", tok.t, a.get(i), b.get(i))));
    }
    vd.nontrivial = d0.toks.iter().any(|t| super::is_macro_token(t.t));
    vd
}

/// '(' directly after a macro call / argument-taking built-in / %while / %until name, and '=' tokens
/// directly after a name-like token: a gap before them is insignificant
fn gap_before_sites(d: &Dump) -> Vec<&crate::api::Tok> {
    let mut v = vec![];
    for (i, t) in d.toks.iter().enumerate() {
        if t.empty() || t.ch != Ch::DEFAULT || i == 0 {
            continue;
        }
        let p = &d.toks[i - 1];
        if p.e != t.b || p.empty() {
            continue;
        }
        let ok = match t.t {
            T::LPAREN => p.t == T::MacroIdentifier || crate::oracle::kw::is_builtin_with_args(p.t) && !matches!(p.t, T::KwmStr | T::KwmNrStr) || matches!(p.t, T::KwmWhile | T::KwmUntil),
            T::ASSIGN => matches!(p.t, T::MacroString | T::MacroVarTerm | T::Identifier) && p.ch == Ch::DEFAULT,
            _ => false,
        };
        if ok {
            v.push(t);
        }
    }
    v
}

pub struct GapAfterDelimiter {
    pub seed: u64,
    pub programs: usize,
}
impl super::Sweep for GapAfterDelimiter {
    fn name(&self) -> String {
        format!("a blank / line feed / comment inserted after every ',' '(' '=' delimiter token of {} construct-grammar programs and of the statement-complete real-world programs (up to 150 delimiters each)", self.programs)
    }
    fn chunks(&self) -> usize {
        self.programs + real_programs().len()
    }
    fn run_chunk(&self, chunk: usize, f: &mut dyn FnMut(Case)) {
        let mut m = crate::su::Mix::new(crate::su::mix2(self.seed ^ 0x6A9, chunk as u64));
        let src = if chunk < self.programs {
            let len = 8 + m.below(160);
            let bytes = m.bytes(len);
            build(&bytes).out
        } else {
            real_programs()[chunk - self.programs].1.clone()
        };
        let d = match lex(Variant::Rel, &src) {
            Lexed::Ok(d) if d.errs.is_empty() => d,
            _ => return,
        };
        let ends: Vec<usize> = d.toks.iter().filter(|t| !t.empty() && t.ch == Ch::DEFAULT && matches!(t.t, T::COMMA | T::LPAREN | T::ASSIGN)).map(|t| t.e as usize).collect();
        let step = (ends.len() / 150).max(1);
        for (k, at) in ends.iter().enumerate() {
            if k % step != 0 {
                continue;
            }
            let gap = [" ", "\n", "  ", "/*c,)=*/", " /*c*/ "][m.below(5)];
            f(Case { kind: "gap".into(), texts: vec![src.clone(), gap.to_string()], bytes: vec![], n: *at as u64, gen: "gap-after-delimiter" });
        }
        let starts: Vec<usize> = gap_before_sites(&d).iter().map(|t| t.b as usize).collect();
        let step = (starts.len() / 100).max(1);
        for (k, at) in starts.iter().enumerate() {
            if k % step != 0 {
                continue;
            }
            // (only whitespace before a delimiter: a comment does not end a name expression)
            let gap = [" ", "\n", "  ", "\t"][m.below(4)];
            f(Case { kind: "gap".into(), texts: vec![src.clone(), gap.to_string()], bytes: vec![1], n: *at as u64, gen: "gap-before-delimiter" });
        }
    }
}
