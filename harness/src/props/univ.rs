//! Properties decided on a single source text: C01-C10 (invariants over the output),
//! C17 (BOM), C18 (macro_sep on/off), C19 (debug vs optimized build; threads; history; toolchain).
use super::{common_labels, distinct_types, gram_text, has_zero_width, is_macro_token, text_mix, type_labels, Property, Sweep, Tier};
use crate::api::{lex, iter_budget, Ch, Dump, Lexed, Pl, Variant, EK, T};
use crate::core::{trunc, Case, Verdict, Violation};
use crate::gen::text;
use crate::oracle::pos::Pos;
use crate::oracle::universal as u;
use crate::su::{mix2, Mix, Src};

pub struct Univ {
    id: &'static str,
}
impl Univ {
    pub fn new(id: &'static str) -> Self {
        Univ { id }
    }
    fn variants(&self) -> &'static [Variant] {
        match self.id {
            "C01" => &[Variant::Dbg, Variant::Rel, Variant::DbgNosep, Variant::Nosep],
            "C02" => &[Variant::Rel, Variant::Dbg, Variant::Nosep],
            "C03" => &[Variant::Rel, Variant::Dbg],
            "C04" | "C05" => &[Variant::Rel, Variant::Dbg],
            "C06" => &[Variant::Rel, Variant::Nosep, Variant::Dbg],
            "C09" => &[Variant::Rel, Variant::Nosep],
            _ => &[Variant::Rel],
        }
    }
}

pub fn panic_sig(v: Variant, p: &crate::api::PanicInfo) -> String {
    let first = p.msg.lines().next().unwrap_or("");
    let stripped: String = first.chars().map(|c| if c.is_ascii_digit() { '#' } else { c }).collect();
    let file = p.file.rsplit('/').next().unwrap_or("");
    format!("panic:{}:{}:{}", v.name(), file, trunc(&stripped, 100))
}

/// violations of C01 visible from one lexer call
pub fn c01_of(v: Variant, src: &str, l: &Lexed, out: &mut Vec<Violation>) {
    match l {
        Lexed::Panic(p) => out.push(Violation::new("C01", "panic", panic_sig(v, p), format!("{} build panicked at {}:{}: {}", v.name(), p.file, p.line, p.msg.lines().next().unwrap_or("")))),
        Lexed::Err(code) => out.push(Violation::simple("C01", "returns-err", format!("{} build: lex_program returned Err({code}) for a {}-byte source", v.name(), src.len()))),
        Lexed::Ok(d) => {
            if d.verif.budget_exceeded {
                out.push(Violation::new("C01", "budget", format!("budget:{}", v.name()), format!("{} build: more than {} main-loop iterations for {} bytes (no progress / non-linear work); {} errors so far", v.name(), iter_budget(src.len()), src.len(), d.errs.len())));
            } else {
                let pos = Pos::new(src);
                let cx = u::Ctx { src, d, pos: &pos };
                let mut vv = vec![];
                u::c01_output(&cx, &mut vv);
                for mut x in vv {
                    x.sig = format!("{}:{}", x.sig, v.name());
                    x.msg = format!("{} build: {}", v.name(), x.msg);
                    out.push(x);
                }
            }
        }
    }
}

fn escapes_in_payload_tokens(src: &str, d: &Dump) -> (bool, Vec<String>) {
    let mut any = false;
    let mut labels = vec![];
    for (i, t) in d.toks.iter().enumerate() {
        let raw = src.get(t.b as usize..t.e as usize).unwrap_or("");
        if u::is_quoted_lit(t.t) {
            let q = raw.chars().next().unwrap_or(' ');
            let qq: String = [q, q].iter().collect();
            if raw.len() > 2 && raw.get(1..).map_or(false, |r| r.contains(&qq)) {
                any = true;
                labels.push("escape:doubled-quote-in-literal".to_string());
            }
            if t.t == T::HexStringLiteral {
                any = true;
                labels.push("escape:hex-literal".into());
            }
        } else if matches!(t.t, T::StringExprText | T::StringExprEnd) && raw.contains("\"\"") {
            any = true;
            labels.push("escape:doubled-quote-in-strexpr".into());
        } else if t.t == T::MacroString && u::unq_pct(raw).1 {
            any = true;
            labels.push("escape:pct-quote".into());
            if u::str_call_depth_at(d, i) > 0 {
                labels.push("escape:pct-quote-in-str-call".into());
            }
            if !matches!(raw.chars().next(), Some('%')) && i > 0 && d.toks[i - 1].t != T::LPAREN {
                labels.push("escape:after-subtoken".into());
            }
        }
    }
    (any, labels)
}

impl Property for Univ {
    fn id(&self) -> &'static str {
        self.id
    }
    fn rule(&self) -> String {
        let gen = "cases: random mix of fragment soup (trigger fragments + test-suite literals + real-world windows), weighted Unicode text, dense repetitions, construct-grammar programs and their truncations, literal and numeric spelling generators, plus the sweeps listed under 'sweeps'; distinct = distinct source text; ";
        let nt = match self.id {
            "C01" => "non-trivial = the input yields at least one macro-mode token or one lexer error and is not a verbatim test-suite literal",
            "C02" => "non-trivial = at least one rollback (hook counter), or a zero-width token other than EOF, or a multi-byte character",
            "C03" => "non-trivial = a multi-byte character precedes the start of the last token before EOF",
            "C04" => "non-trivial = the source has >= 2 lines and some token contains a line feed inside or at its end",
            "C05" => "non-trivial = an empty token at a line start, or a token ending in a line feed, or a leading BOM",
            "C06" => "non-trivial = at least 5 distinct token types in the result",
            "C07" => "non-trivial = at least one escape (doubled quote, %-quote, hex literal) in a token that carries or should carry a payload",
            "C08" => "non-trivial = a numeric token longer than one digit or in non-integer notation",
            "C09" => "non-trivial = at least one error and at least one rollback in the same run",
            "C10" => "non-trivial = mode stack deeper than 2 at end of input, or a string expression containing a macro call, or a datalines block, or a macro label",
            "C17" => "non-trivial = non-empty source that is multi-line or starts with a token whose rule looks at the start of input (datalines keyword, macro statement, '*', label)",
            "C18" => "non-trivial = the macro_sep build emitted at least one MacroSep token",
            "C19" => "non-trivial = as C01 (macro token or error), both builds returned",
            _ => "",
        };
        format!("{gen}{nt}")
    }
    fn cases(&self, tier: Tier) -> u64 {
        let q = match self.id {
            "C01" => 300_000,
            "C07" | "C08" => 1_000_000,
            "C17" | "C18" => 600_000,
            _ => 200_000,
        };
        match tier {
            Tier::Quick => q,
            Tier::Thorough => q * if q >= 600_000 { 8 } else { 20 },
        }
    }
    fn generate(&self, s: &mut Src) -> Case {
        // weights: [soup, text, repeat, gram, gram-trunc, lit, num, window]
        let w = match self.id {
            "C01" => [10, 4, 1, 2, 3, 1, 1, 1],
            "C02" | "C06" => [10, 4, 1, 3, 2, 2, 1, 2],
            "C03" => [8, 6, 0, 3, 1, 2, 0, 2],
            "C04" | "C05" => [8, 3, 0, 5, 2, 2, 0, 3],
            "C07" => [5, 1, 0, 3, 1, 12, 0, 1],
            "C08" => [3, 0, 0, 1, 0, 0, 14, 1],
            "C09" => [12, 2, 1, 2, 4, 1, 1, 0],
            "C10" => [8, 2, 1, 2, 8, 1, 0, 1],
            "C17" => [8, 3, 0, 4, 2, 1, 1, 2],
            "C18" => [12, 1, 1, 4, 3, 0, 0, 2],
            _ => [10, 4, 1, 3, 2, 1, 1, 1],
        };
        let (g, mut t) = text_mix(s, w);
        let mut gname = g;
        match self.id {
            "C03" => {
                if s.coin(1, 2) {
                    t = text::mutate_multibyte(s, &t, 77);
                    gname = "multibyte-mutated";
                }
            }
            "C04" | "C05" => {
                if s.coin(1, 2) {
                    t = text::mutate_linefeeds(s, &t, 40);
                    gname = "linefeed-mutated";
                }
            }
            "C17" => {
                // the property is about sources that do not start with a BOM
                while t.starts_with('\u{feff}') {
                    t.remove(0);
                }
            }
            _ => {}
        }
        Case::text(gname, t)
    }

    fn check(&self, case: &Case) -> Verdict {
        let src = case.t0();
        let mut vd = Verdict { key: src.to_string(), ..Default::default() };
        vd.label(format!("gen:{}", case.gen));
        if self.id == "C19" && case.kind == "batch" {
            vd.key = format!("batch of {} inputs starting with {:?}", case.texts.len(), trunc(src, 80));
            crate::props::meta::check_batch(&case.texts, &mut vd);
            return vd;
        }
        if self.id == "C19" && case.kind == "xtool" {
            return crate::props::meta::check_xtool(case, vd);
        }
        if self.id == "C19" && case.kind == "xfresh" {
            return crate::props::meta::check_xfresh(case, vd);
        }
        match self.id {
            "C17" => return check_c17(src, vd),
            "C18" => return check_c18(src, vd),
            "C19" => return check_c19(src, vd),
            _ => {}
        }
        let mut first_ok: Option<Box<Dump>> = None;
        // deeply nested counter-boundary inputs: the debug-assertion builds keep a copy of the mode stack per main-loop
        // iteration (their loop detector), which is quadratic in the nesting depth - minutes for 2^15 levels. That is
        // slowness of debug-only bookkeeping, not a hang, so those inputs go to the optimized builds and to the
        // optimized build with arithmetic overflow checks instead
        let deep: &[Variant] = &[Variant::Ovf, Variant::Rel, Variant::Nosep];
        let variants = if case.kind == "counter-boundary-deep" { deep } else { self.variants() };
        for &v in variants {
            let l = lex(v, src);
            if self.id == "C01" {
                c01_of(v, src, &l, &mut vd.violations);
                if let Lexed::Ok(d) = &l {
                    if src.len() >= 8 {
                        vd.maxima.push(("iterations_per_byte", d.verif.iterations as f64 / src.len() as f64));
                        vd.maxima.push(("tokens_per_byte", d.toks.len() as f64 / src.len() as f64));
                        vd.maxima.push(("errors_per_byte", d.errs.len() as f64 / src.len() as f64));
                    }
                    vd.maxima.push(("max_mode_stack_depth", d.verif.max_mode_stack_depth as f64));
                }
                if let Lexed::Panic(_) = &l {
                    vd.label(format!("panic:{}", v.name()));
                }
                if case.kind == "counter-boundary-deep" && !vd.violations.is_empty() {
                    // the overflow-checking build already failed: do not let the wrapping builds run away on it
                    break;
                }
            }
            let d = match l {
                Lexed::Ok(d) if !d.verif.budget_exceeded => d,
                _ => {
                    if self.id != "C01" {
                        vd.label(format!("variant-skipped-no-result:{}", v.name()));
                    }
                    continue;
                }
            };
            if self.id != "C01" {
                let pos = Pos::new(src);
                let cx = u::Ctx { src, d: &d, pos: &pos };
                let mut vv = vec![];
                let structural_ok = u::c02(&cx, &mut vv);
                if self.id != "C02" {
                    vv.clear();
                    if structural_ok {
                        match self.id {
                            "C03" => u::c03(&cx, &mut vv),
                            "C04" => u::c04(&cx, &mut vv),
                            "C05" => u::c05(&cx, &mut vv),
                            "C06" => u::c06(&cx, &mut vv),
                            "C07" => u::c07(&cx, &mut vv),
                            "C08" => {
                                let mut classes = vec![];
                                u::c08(&cx, &mut vv, &mut classes);
                                for c in classes {
                                    vd.label(format!("notation:{c}"));
                                }
                            }
                            "C09" => u::c09(&cx, &mut vv),
                            "C10" => u::c10(&cx, &mut vv),
                            _ => {}
                        }
                    } else {
                        vd.label("skipped-structurally-broken");
                    }
                }
                for mut x in vv {
                    x.msg = format!("[{}] {}", v.name(), x.msg);
                    vd.violations.push(x);
                }
            }
            if first_ok.is_none() {
                first_ok = Some(d);
            }
        }
        // de-duplicate the same violation reported by several variants
        vd.violations.dedup_by(|a, b| a.sig == b.sig && a.rule == b.rule);
        let d = match first_ok {
            Some(d) => d,
            None => {
                if self.id == "C01" {
                    vd.nontrivial = true; // a case on which no build returns is as non-trivial as it gets
                    return vd;
                }
                vd.discard = Some("no variant returned a result (C01 territory)");
                return vd;
            }
        };
        common_labels(&d, &mut vd.labels);
        let pos = Pos::new(src);
        vd.nontrivial = match self.id {
            "C01" => (d.toks.iter().any(|t| is_macro_token(t.t)) || !d.errs.is_empty()) && !crate::gen::corpus().tests.iter().any(|t| t == src),
            "C02" => {
                if has_zero_width(&d) { vd.label("zero-width-token"); }
                d.verif.rollbacks > 0 || has_zero_width(&d) || pos.multibyte
            }
            "C03" => {
                let last = if d.toks.len() >= 2 { d.toks[d.toks.len() - 2].b as usize } else { 0 };
                pos.multibyte && src[..last.min(src.len())].chars().any(|c| c.len_utf8() > 1)
            }
            "C04" => {
                let inner = d.toks.iter().any(|t| src.get(t.b as usize..t.e as usize).map_or(false, |r| r.contains('\n')));
                if d.verif.lines_rolled_back > 0 { vd.label("rollback-crossed-linefeed"); }
                pos.total_lines >= 2 && inner
            }
            "C05" => {
                let empty_at_line_start = d.toks.iter().any(|t| t.empty() && t.t != T::EOF && t.col == 0);
                let ends_lf = d.toks.iter().any(|t| src.get(t.b as usize..t.e as usize).map_or(false, |r| r.ends_with('\n')));
                if empty_at_line_start { vd.label("empty-token-at-line-start"); }
                if ends_lf { vd.label("token-ends-in-linefeed"); }
                if pos.bom_len > 0 { vd.label("bom"); }
                empty_at_line_start || ends_lf || pos.bom_len > 0
            }
            "C06" => {
                type_labels(&d, &mut vd.labels);
                distinct_types(&d) >= 5
            }
            "C07" => {
                let (any, labels) = escapes_in_payload_tokens(src, &d);
                vd.labels.extend(labels);
                if d.errs.iter().any(|e| e.k == EK::UnterminatedStringLiteral) && any { vd.label("escape:in-unterminated-literal"); }
                any
            }
            "C08" => d.toks.iter().any(|t| u::is_numeric(t.t) && { let r = &src[t.b as usize..t.e as usize]; r.len() > 1 || !matches!(t.pl, Pl::Int(_)) }),
            "C09" => {
                for e in &d.errs { vd.label(format!("error:{:?}", e.k)); }
                !d.errs.is_empty() && d.verif.rollbacks > 0
            }
            "C10" => {
                let deep = d.verif.end_mode_stack_len > 2;
                let mut in_str = 0;
                let mut nested_call = false;
                for t in &d.toks {
                    if t.t == T::StringExprStart { in_str += 1; }
                    if u::is_expr_end(t.t) && in_str > 0 { in_str -= 1; }
                    if in_str > 0 && (t.t == T::MacroIdentifier || (crate::oracle::kw::is_kwm(t.t))) { nested_call = true; }
                }
                let dl = d.toks.iter().any(|t| t.t == T::DatalinesStart);
                let lb = d.toks.iter().any(|t| t.t == T::MacroLabel);
                if deep { vd.label("deep-stack-at-eof"); }
                if nested_call { vd.label("call-in-string-expr"); }
                if dl { vd.label("datalines"); }
                if lb { vd.label("label"); }
                deep || nested_call || dl || lb
            }
            _ => false,
        };
        vd
    }

    fn sweeps(&self, tier: Tier, seed: u64) -> Vec<Box<dyn Sweep>> {
        let mut v: Vec<Box<dyn Sweep>> = vec![];
        let thorough = tier == Tier::Thorough;
        match self.id {
            "C01" | "C02" | "C03" | "C04" | "C05" | "C06" | "C09" | "C10" => {
                v.push(Box::new(Exh::chars(if thorough { 6 } else { 5 })));
                v.push(Box::new(Exh::items(if thorough { 5 } else { 4 })));
            }
            _ => {}
        }
        match self.id {
            "C01" => {
                v.push(Box::new(BigInput { mib: if thorough { 64 } else { 8 } }));
                v.push(Box::new(Counters { big: thorough }));
                v.push(Box::new(ProgSweep { seed: mix2(seed, 0x10), programs: if thorough { 20_000 } else { 2_000 }, mode: ProgMode::Truncate }));
            }
            "C04" | "C05" => v.push(Box::new(ProgSweep { seed: mix2(seed, 0x04), programs: if thorough { 20_000 } else { 2_000 }, mode: ProgMode::InsertLf })),
            "C10" | "C09" | "C02" | "C06" => v.push(Box::new(ProgSweep { seed: mix2(seed, 0x10), programs: if thorough { 20_000 } else { 2_000 }, mode: ProgMode::Truncate })),
            "C08" => {
                if thorough {
                    v.push(Box::new(NumExh { maxlen: 6 }));
                } else {
                    v.push(Box::new(NumExh { maxlen: 4 }));
                }
            }
            "C07" | "C16" => v.push(Box::new(HexExh { three: thorough })),
            "C19" => {
                v.push(Box::new(crate::props::meta::ThreadsSweep { seed: mix2(seed, 0x19), batches: if thorough { 96 } else { 12 } }));
                v.push(Box::new(crate::props::meta::FreshProcessSweep { seed: mix2(seed, 0x1920), batches: if thorough { 64 } else { 8 } }));
                if let Ok(p) = std::env::var("VERIF_NIGHTLY_BIN") {
                    if std::path::Path::new(&p).exists() {
                        v.push(Box::new(crate::props::meta::ToolchainSweep { seed: mix2(seed, 0x1919), batches: if thorough { 3200 } else { 80 }, other_bin: p.into() }));
                    }
                }
            }
            _ => {}
        }
        v
    }
    fn assumptions(&self) -> Vec<String> {
        let mut a = vec![
            "the harness adapter (src/api.rs) reports accessor results faithfully".to_string(),
            "unicode-ident tables and Rust std (char::is_whitespace, str::parse::<f64>/<u64>) are trusted reference data".to_string(),
        ];
        if self.id == "C01" {
            a.push("'linear work' is read as at most 256 + 16*len main-loop iterations (hook budget) and at most 16 + 4*len tokens and errors; inputs stop at 64 MiB, the 4 GiB limit is not approached".into());
        }
        a
    }
}

// ------------------------------------------------------------------------------------------ C17

fn shift_bom(d: &Dump) -> Option<Dump> {
    let mut x = d.clone();
    for t in x.toks.iter_mut() {
        t.b = t.b.checked_sub(3)?;
        t.e = t.e.checked_sub(3)?;
        t.c = t.c.checked_sub(1)?;
        t.ce = t.ce.checked_sub(1)?;
    }
    for r in x.resolved.iter_mut() {
        r.start = r.start.checked_sub(1)?;
        r.stop = r.stop.checked_sub(1)?;
    }
    for e in x.errs.iter_mut() {
        e.b = e.b.checked_sub(3)?;
        e.c = e.c.checked_sub(1)?;
    }
    Some(x)
}

pub fn first_diff(a: &Dump, b: &Dump) -> String {
    if a.toks.len() != b.toks.len() {
        let i = a.toks.iter().zip(b.toks.iter()).position(|(x, y)| x != y).unwrap_or(a.toks.len().min(b.toks.len()));
        return format!("token count {} vs {}; first difference at token {i}: {:?} vs {:?}", a.toks.len(), b.toks.len(), a.toks.get(i), b.toks.get(i));
    }
    if let Some(i) = a.toks.iter().zip(b.toks.iter()).position(|(x, y)| x != y) {
        return format!("token {i}: {:?} vs {:?}", a.toks[i], b.toks[i]);
    }
    if a.errs != b.errs {
        let i = a.errs.iter().zip(b.errs.iter()).position(|(x, y)| x != y).unwrap_or(a.errs.len().min(b.errs.len()));
        return format!("error {i}: {:?} vs {:?}", a.errs.get(i), b.errs.get(i));
    }
    if a.lit != b.lit {
        return format!("literal buffer {:?} vs {:?}", a.lit, b.lit);
    }
    if a.lines != b.lines {
        return format!("line count {} vs {}", a.lines, b.lines);
    }
    if a.resolved != b.resolved {
        return "resolved token vectors differ".into();
    }
    if a.accessor_failures != b.accessor_failures || a.raw_none != b.raw_none {
        return "accessor behaviour differs".into();
    }
    if a.verif != b.verif {
        return format!("hook observations differ: {:?} vs {:?}", a.verif, b.verif);
    }
    "no difference".into()
}
fn diff_class(a: &Dump, b: &Dump) -> &'static str {
    let ta: Vec<_> = a.toks.iter().map(|t| (t.t, t.ch)).collect();
    let tb: Vec<_> = b.toks.iter().map(|t| (t.t, t.ch)).collect();
    if ta != tb {
        "token-types"
    } else if a.toks != b.toks {
        "token-positions-or-payloads"
    } else if a.errs != b.errs {
        "errors"
    } else if a.lit != b.lit {
        "literal-buffer"
    } else if a.lines != b.lines {
        "line-count"
    } else {
        "other"
    }
}

fn check_c17(src: &str, mut vd: Verdict) -> Verdict {
    if src.starts_with('\u{feff}') {
        vd.discard = Some("source starts with a BOM");
        return vd;
    }
    let with = format!("\u{feff}{src}");
    let (a, b) = (lex(Variant::Rel, src), lex(Variant::Rel, &with));
    let (a, b) = match (a, b) {
        (Lexed::Ok(a), Lexed::Ok(b)) if !a.verif.budget_exceeded && !b.verif.budget_exceeded => (a, b),
        _ => {
            vd.discard = Some("no result for one of the two inputs (C01 territory)");
            return vd;
        }
    };
    common_labels(&a, &mut vd.labels);
    match shift_bom(&b) {
        None => vd.violations.push(Violation::simple("C17", "offsets-not-shifted", "an offset in the BOM-prefixed result is smaller than the BOM itself".to_string())),
        Some(mut sb) => {
            // the hook's iteration count is not part of the property, but identical anyway; budget depends on length
            sb.verif = a.verif.clone();
            if sb != *a {
                vd.violations.push(Violation::new("C17", "bom-changes-result", format!("bom-changes-result:{}", diff_class(&sb, &a)), format!("with BOM (shifted back) vs without: {}", first_diff(&sb, &a))));
            }
        }
    }
    let first = a.toks.first().map(|t| t.t);
    let start_sensitive = matches!(first, Some(T::DatalinesStart | T::PredictedCommentStat | T::MacroLabel | T::MacroComment)) || first.map_or(false, crate::oracle::kw::is_macro_stat_kw);
    if start_sensitive {
        vd.label("starts-with-start-sensitive-token");
    }
    if a.lines >= 2 {
        vd.label("multi-line");
    }
    vd.nontrivial = !src.is_empty() && (a.lines >= 2 || start_sensitive);
    vd
}

// ------------------------------------------------------------------------------------------ C18

pub fn strip_sep(d: &Dump) -> Dump {
    let mut x = d.clone();
    let mut map: Vec<Option<u32>> = Vec::with_capacity(d.toks.len());
    let mut k = 0u32;
    for t in &d.toks {
        if t.t == T::MacroSep {
            map.push(None);
        } else {
            map.push(Some(k));
            k += 1;
        }
    }
    x.toks = d.toks.iter().filter(|t| t.t != T::MacroSep).cloned().collect();
    x.resolved = d.resolved.iter().filter(|t| t.t != T::MacroSep).cloned().collect();
    for (i, r) in x.resolved.iter_mut().enumerate() {
        r.index = i as u32;
    }
    x.token_count = x.toks.len() as u32;
    let keep: Vec<bool> = d.toks.iter().map(|t| t.t != T::MacroSep).collect();
    let filt = |v: &Vec<bool>| v.iter().zip(keep.iter()).filter(|(_, k)| **k).map(|(b, _)| *b).collect::<Vec<bool>>();
    x.raw_none = filt(&d.raw_none);
    x.raw_matches_range = filt(&d.raw_matches_range);
    x.resolved_text_ok = filt(&d.resolved_text_ok);
    for e in x.errs.iter_mut() {
        if let Some(l) = e.last {
            // an error whose last token is a removed separator maps to the preceding token
            let mut i = l as usize;
            let mut m = None;
            loop {
                if let Some(Some(v)) = map.get(i) {
                    m = Some(*v);
                    break;
                }
                if i == 0 {
                    break;
                }
                i -= 1;
            }
            e.last = m;
        }
    }
    x
}

fn check_c18(src: &str, mut vd: Verdict) -> Verdict {
    let (a, b) = (lex(Variant::Rel, src), lex(Variant::Nosep, src));
    let (a, b) = match (a, b) {
        (Lexed::Ok(a), Lexed::Ok(b)) if !a.verif.budget_exceeded && !b.verif.budget_exceeded => (a, b),
        _ => {
            vd.discard = Some("no result in one of the two configurations (C01 territory)");
            return vd;
        }
    };
    common_labels(&a, &mut vd.labels);
    let mut s = strip_sep(&a);
    s.verif = b.verif.clone();
    s.accessor_failures = b.accessor_failures.clone();
    if s != *b {
        vd.violations.push(Violation::new("C18", "differs-beyond-separators", format!("differs-beyond-separators:{}", diff_class(&s, &b)), format!("macro_sep build without its MacroSep tokens vs build without the feature: {}", first_diff(&s, &b))));
    }
    if b.toks.iter().any(|t| t.t == T::MacroSep) {
        vd.violations.push(Violation::simple("C18", "sep-without-feature", "MacroSep token in the build without the feature".to_string()));
    }
    let n = a.toks.len();
    let mut nsep = 0;
    for (i, t) in a.toks.iter().enumerate() {
        if t.t != T::MacroSep {
            continue;
        }
        nsep += 1;
        if !t.empty() || t.ch != Ch::DEFAULT {
            vd.violations.push(Violation::simple("C18", "sep-shape", format!("MacroSep token {i} is not zero-width on the default channel: {:?}", t)));
        }
        let next = a.toks.get(i + 1).map(|x| x.t);
        let next_ok = next.map_or(false, |x| crate::oracle::kw::is_macro_stat_kw(x) || x == T::MacroLabel);
        if !next_ok {
            vd.violations.push(Violation::new("C18", "sep-not-before-stat", format!("sep-not-before-stat:{:?}", next), format!("MacroSep token {i} is followed by {:?}", next)));
        }
        let prev = a.toks[..i].iter().rev().find(|x| x.ch == Ch::DEFAULT).map(|x| x.t);
        match prev {
            None => vd.violations.push(Violation::simple("C18", "sep-at-start", format!("MacroSep token {i} has no preceding default-channel token"))),
            Some(p) if matches!(p, T::SEMI | T::MacroLabel | T::KwmThen | T::KwmElse) => vd.violations.push(Violation::new("C18", "sep-after-terminator", format!("sep-after-terminator:{:?}", p), format!("MacroSep token {i} directly after {:?}", p))),
            _ => {}
        }
        let _ = n;
    }
    if nsep > 0 && !a.errs.is_empty() {
        vd.label("separators-with-errors");
    }
    if a.toks.windows(2).any(|w| w[0].t == T::MacroSep && w[1].t == T::MacroLabel) {
        vd.label("separator-before-label(insert_token)");
    }
    vd.nontrivial = nsep > 0;
    vd
}

// ------------------------------------------------------------------------------------------ C19

fn check_c19(src: &str, mut vd: Verdict) -> Verdict {
    let (a, b) = (lex(Variant::Dbg, src), lex(Variant::Rel, src));
    // a build "returns a result" when it neither panics, nor exceeds the budget, nor reports an internal error
    let good = |l: &Lexed| matches!(l, Lexed::Ok(d) if !d.verif.budget_exceeded && !d.errs.iter().any(|e| e.code >= 9000));
    let describe = |l: &Lexed| match l {
        Lexed::Panic(p) => format!("panics ({})", p.msg.lines().next().unwrap_or("")),
        Lexed::Err(c) => format!("returns Err({c})"),
        Lexed::Ok(d) if d.verif.budget_exceeded => "exceeds the iteration budget".to_string(),
        Lexed::Ok(d) => match d.errs.iter().find(|e| e.code >= 9000) {
            Some(e) => format!("reports internal error {:?}", e.k),
            None => format!("returns {} tokens, {} errors", d.toks.len(), d.errs.len()),
        },
    };
    let (a, b) = match (good(&a), good(&b)) {
        (true, true) => match (a, b) {
            (Lexed::Ok(a), Lexed::Ok(b)) => (a, b),
            _ => unreachable!(),
        },
        (false, false) => {
            vd.discard = Some("both builds panic, exceed the budget or report an internal error (C01 territory)");
            return vd;
        }
        (ga, _) => {
            // one build returns a clean result and the other does not: the outcome depends on the build profile
            let which = if ga { "optimized-build-fails" } else { "debug-build-fails" };
            vd.violations.push(Violation::new("C19", "debug-vs-release", format!("debug-vs-release:asymmetric:{which}"), format!("debug-assertion build {}; optimized build {}", describe(&a), describe(&b))));
            vd.nontrivial = true;
            return vd;
        }
    };
    common_labels(&b, &mut vd.labels);
    if a != b {
        vd.violations.push(Violation::new("C19", "debug-vs-release", format!("debug-vs-release:{}", diff_class(&a, &b)), format!("debug-assertion build vs optimized build: {}", first_diff(&a, &b))));
    }
    // history: lexing again after other inputs gives the same answer
    let again = lex(Variant::Rel, src);
    if again.ok() != Some(&*b) {
        vd.violations.push(Violation::simple("C19", "repeat-differs", "the same source lexed twice in a row gives different results".to_string()));
    }
    vd.nontrivial = b.toks.iter().any(|t| is_macro_token(t.t)) || !b.errs.is_empty();
    vd
}

// ------------------------------------------------------------------------------------------ sweeps

/// bounded-exhaustive: every string of <= maxlen items over a small alphabet (shortlex order)
pub struct Exh {
    alpha: Vec<&'static str>,
    maxlen: usize,
    label: &'static str,
}
impl Exh {
    pub fn chars(maxlen: usize) -> Exh {
        Exh { alpha: vec!["%", "&", "(", ")", ";", "'", "\"", "a", "1", " ", "=", ",", "*", "/", ".", "\n"], maxlen, label: "trigger-characters" }
    }
    pub fn items(maxlen: usize) -> Exh {
        Exh {
            alpha: vec![
                "%let ", "%do ", "%m", "%str(", "%eval(", "%if ", "%then ", "%to ", "%end", "%macro ", "%mend", "%put ", "%scan(", "%sysfunc(", "%goto ", "%l:", "a", "1", "=", ",", "(", ")", ";", " ", "\"", "'", "&v", "/*c*/", "* ", "%*c;",
                "datalines;", "\n", "/*",
            ],
            maxlen,
            label: "construct-openers",
        }
    }
    fn total(&self) -> u64 {
        let a = self.alpha.len() as u64;
        (0..=self.maxlen as u32).map(|l| a.pow(l)).sum()
    }
    fn nth(&self, mut i: u64) -> String {
        let a = self.alpha.len() as u64;
        let mut l = 0u32;
        while i >= a.pow(l) {
            i -= a.pow(l);
            l += 1;
        }
        let mut idx = vec![0usize; l as usize];
        for k in (0..l as usize).rev() {
            idx[k] = (i % a) as usize;
            i /= a;
        }
        idx.iter().map(|&k| self.alpha[k]).collect()
    }
}
const EXH_CHUNKS: usize = 64;
impl Sweep for Exh {
    fn name(&self) -> String {
        format!("exhaustive: all sequences of <= {} items over the {} {} ({} inputs)", self.maxlen, self.alpha.len(), self.label, self.total())
    }
    fn chunks(&self) -> usize {
        EXH_CHUNKS
    }
    fn run_chunk(&self, chunk: usize, f: &mut dyn FnMut(Case)) {
        let total = self.total();
        let per = total.div_ceil(EXH_CHUNKS as u64);
        let (lo, hi) = (chunk as u64 * per, ((chunk as u64 + 1) * per).min(total));
        for i in lo..hi {
            f(Case::text("exhaustive", self.nth(i)));
        }
    }
    fn exhaustive(&self) -> bool {
        true
    }
}

pub enum ProgMode {
    Truncate,
    InsertLf,
}
/// every truncation / every single line-feed insertion of generated well-formed programs
pub struct ProgSweep {
    pub seed: u64,
    pub programs: usize,
    pub mode: ProgMode,
}
impl Sweep for ProgSweep {
    fn name(&self) -> String {
        match self.mode {
            ProgMode::Truncate => format!("every truncation at a char boundary of {} construct-grammar programs", self.programs),
            ProgMode::InsertLf => format!("one of LF / CR LF / 'é' LF inserted at every position of {} construct-grammar programs", self.programs),
        }
    }
    fn chunks(&self) -> usize {
        self.programs
    }
    fn run_chunk(&self, chunk: usize, f: &mut dyn FnMut(Case)) {
        let mut m = Mix::new(mix2(self.seed, chunk as u64));
        let len = 8 + m.below(160);
        let bytes = m.bytes(len);
        let p = gram_text(&bytes);
        match self.mode {
            ProgMode::Truncate => {
                for (i, _) in p.char_indices() {
                    f(Case::text("gram-every-truncation", p[..i].to_string()));
                }
            }
            ProgMode::InsertLf => {
                let ins = ["\n", "\r\n", "é\n"][m.below(3)];
                for (i, _) in p.char_indices().chain(std::iter::once((p.len(), ' '))) {
                    let mut x = String::with_capacity(p.len() + 3);
                    x.push_str(&p[..i]);
                    x.push_str(ins);
                    x.push_str(&p[i..]);
                    f(Case::text("gram-linefeed-inserted", x));
                }
            }
        }
    }
}

/// one very large input assembled from the corpus (C01: output and work stay linear)
pub struct BigInput {
    pub mib: usize,
}
impl Sweep for BigInput {
    fn name(&self) -> String {
        format!("one {} MiB input assembled from the real-world programs and test literals", self.mib)
    }
    fn chunks(&self) -> usize {
        1
    }
    fn after_random(&self) -> bool {
        true
    }
    fn run_chunk(&self, _chunk: usize, f: &mut dyn FnMut(Case)) {
        let c = crate::gen::corpus();
        let mut s = String::with_capacity(self.mib << 20);
        let mut i = 0usize;
        while s.len() < (self.mib << 20) {
            if !c.programs.is_empty() {
                s.push_str(&c.programs[i % c.programs.len()].1);
                s.push('\n');
            }
            if !c.tests.is_empty() {
                s.push_str(&c.tests[i % c.tests.len()]);
                s.push_str(";\n");
            }
            if c.programs.is_empty() && c.tests.is_empty() {
                s.push_str("data a; x=1; run;\n");
            }
            i += 1;
        }
        f(Case::text("big-input", s));
    }
}

/// counter boundaries: one unit repeated n times for n around 2^7, 2^8, 2^15, 2^16 (the widths a nesting level, an
/// ampersand count or an offset could be narrowed to), in every opener context, left open and closed again
pub struct Counters {
    pub big: bool,
}
const CNT_CTX: &[(&str, &str)] = &[("", ""), ("%m(", ")"), ("%m(a=", ");"), ("%upcase(", ")"), ("%macro m(a=", "); %mend;"), ("%eval(", ")"), ("%let x=", ";"), ("%str(", ")"), ("\"", "\""), ("%put ", ";"), ("%if ", " %then;"), ("x=", ";"), ("%sysfunc(f(", "))"), ("%scan(", ",1)")];
const CNT_UNIT: &[(&str, &str)] = &[("(", ")"), ("%m(", ")"), ("%eval(", ")"), ("%str(", ")"), ("&", ""), ("&a", ""), ("%upcase(", ")"), ("\"%m(", ")\""), ("%do;", "%end;"), ("\n", ""), (",", ""), ("'a'", ""), ("/*c*/", ""), ("%if 1 %then ", ";"), ("é", ""), ("a.", ""), ("%let a=", ";")];
impl Sweep for Counters {
    fn after_random(&self) -> bool {
        true
    }
    fn name(&self) -> String {
        format!("counter boundaries: {} units repeated n times, n in {}, in {} contexts, left open and closed", CNT_UNIT.len(), if self.big { "{127..129, 255..257, 32767..32769, 65535..65537, 2^20}" } else { "{128, 129, 256, 257, 32768, 32769, 65536, 65537}" }, CNT_CTX.len())
    }
    fn chunks(&self) -> usize {
        CNT_UNIT.len() * CNT_CTX.len()
    }
    fn run_chunk(&self, chunk: usize, f: &mut dyn FnMut(Case)) {
        let (open, close) = CNT_UNIT[chunk % CNT_UNIT.len()];
        let (pre, post) = CNT_CTX[chunk / CNT_UNIT.len()];
        // a counter narrowed to k bits overflows from 2^(k-1) or 2^k units on; the thorough tier also takes the values just below
        let mut ns: Vec<usize> = if self.big { vec![127, 128, 129, 255, 256, 257, 32767, 32768, 32769, 65535, 65536, 65537] } else { vec![128, 129, 256, 257, 32768, 32769, 65536, 65537] };
        if self.big && chunk % 7 == 0 {
            ns.push(1 << 20);
        }
        for n in ns {
            // nested %str( is lexed in quadratic time (every look-behind for the previous default-channel token walks over
            // all the hidden %str( tokens): 2^16 levels take seconds per call - slow, not stuck; only 2^15 levels, in two contexts
            if open == "%str(" && n > 1000 && !(n == 32768 && chunk / CNT_UNIT.len() < 2) {
                continue;
            }
            let body = open.repeat(n);
            // units that nest (they have a closer) make the mode stack n deep
            // (long flat repetitions go to the slow debug-assertion builds only at the two exact powers of two)
            let kind = if n > 1000 && (!close.is_empty() || (n != 32768 && n != 65536)) { "counter-boundary-deep" } else { "counter-boundary" };
            let mut c = Case::text("counter-boundary", format!("{pre}{body}"));
            c.kind = kind.into();
            f(c);
            let mut c = Case::text("counter-boundary", format!("{pre}{body}x{}{post}", close.repeat(n)));
            c.kind = kind.into();
            f(c);
            if n >= 32767 && !close.is_empty() {
                // the same total split by a sub-token in the middle
                let mut c = Case::text("counter-boundary", format!("{pre}{}&v{}x{}{post}", open.repeat(n / 2), open.repeat(n - n / 2), close.repeat(n)));
                c.kind = kind.into();
                f(c);
            }
        }
    }
}

/// every hex string literal of one and two bytes (all 256 / 65536 values; upper-case digits for the first byte and
/// lower-case for the second, so both digit cases of every value occur), single- and double-quoted, bare and inside a call
/// argument; with `three`, also every three-byte literal whose first byte is a UTF-8 three-byte lead (E0..EF)
pub struct HexExh {
    pub three: bool,
}
impl Sweep for HexExh {
    fn name(&self) -> String {
        format!("exhaustive: every hex string literal of 1 and 2 bytes{}", if self.three { " and every 3-byte literal with lead E0..EF" } else { "" })
    }
    fn chunks(&self) -> usize {
        256
    }
    fn run_chunk(&self, chunk: usize, f: &mut dyn FnMut(Case)) {
        let a = chunk;
        let mut emit = |body: String, k: usize| {
            let t = match k % 4 { 0 => format!("'{body}'x"), 1 => format!("\"{body}\"X;"), 2 => format!("%m('{body}'x)"), _ => format!("x=\"{body}\"x;") };
            f(Case::text("hex-exhaustive", t));
        };
        emit(format!("{a:02X}"), a);
        emit(format!("{a:02x}"), a + 1);
        for b in 0..256usize {
            emit(format!("{a:02X}{b:02x}"), a + b);
            if b % 16 == 0 { emit(format!("{a:02x},{b:02X}"), a + b + 1); }
        }
        if self.three && (0xE0..=0xEF).contains(&a) {
            for b in 0x80..0xC0usize { for c in 0..256usize { emit(format!("{a:02X}{b:02x}{c:02X}"), b + c); } }
        }
    }
    fn exhaustive(&self) -> bool {
        true
    }
}

/// all numeric spellings of length <= maxlen over {0,1,9,.,e,E,+,-,a,f,x} in five contexts
pub struct NumExh {
    pub maxlen: usize,
}
const NUM_ALPHA: &[&str] = &["0", "1", "9", ".", "e", "E", "+", "-", "a", "f", "x"];
impl Sweep for NumExh {
    fn name(&self) -> String {
        format!("exhaustive: all spellings of length <= {} over {{0,1,9,.,e,E,+,-,a,f,x}} in open code, %eval and %sysevalf", self.maxlen)
    }
    fn chunks(&self) -> usize {
        NUM_ALPHA.len() * NUM_ALPHA.len()
    }
    fn run_chunk(&self, chunk: usize, f: &mut dyn FnMut(Case)) {
        let ctx: &[(&str, &str)] = &[("", ";"), ("%eval(", ")"), ("%sysevalf(", ")")];
        let a = NUM_ALPHA.len();
        let pre = format!("{}{}", NUM_ALPHA[chunk / a], NUM_ALPHA[chunk % a]);
        // strings of length 1 are covered by chunk 0 only
        let mut emit = |lit: &str| {
            for (p, q) in ctx {
                f(Case::text("numeric-exhaustive", format!("{p}{lit}{q}")));
            }
        };
        if chunk == 0 {
            for x in NUM_ALPHA {
                emit(x);
            }
        }
        let rest = self.maxlen.saturating_sub(2);
        let total: usize = (0..=rest as u32).map(|l| a.pow(l)).sum();
        for mut i in 0..total {
            let mut l = 0u32;
            while i >= a.pow(l) {
                i -= a.pow(l);
                l += 1;
            }
            let mut sfx = String::new();
            let mut digs = vec![0usize; l as usize];
            for k in (0..l as usize).rev() {
                digs[k] = i % a;
                i /= a;
            }
            for d in digs {
                sfx.push_str(NUM_ALPHA[d]);
            }
            emit(&format!("{pre}{sfx}"));
        }
    }
    fn exhaustive(&self) -> bool {
        true
    }
}
