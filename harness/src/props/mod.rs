//! Property definitions: for each listed property a generator mix, an oracle, a non-triviality
//! rule and (optionally) bounded-exhaustive sweeps.
pub mod gramp;
pub mod meta;
pub mod refl;
pub mod univ;

use crate::api::{Ch, Dump, T};
use crate::core::{Case, Verdict};
use crate::gen::gram::G;
use crate::gen::text;
use crate::su::Src;

#[derive(Debug, Clone, Copy, PartialEq, Eq)]
pub enum Tier {
    Quick,
    Thorough,
}

/// A finite family of cases enumerated deterministically (bounded-exhaustive sub-spaces, sweeps
/// over all truncations / insertions / masks). Work is split into chunks that run in parallel.
pub trait Sweep: Sync + Send {
    fn name(&self) -> String;
    fn chunks(&self) -> usize;
    fn run_chunk(&self, chunk: usize, f: &mut dyn FnMut(Case));
    /// the sweep enumerates its (stated) finite space completely
    fn exhaustive(&self) -> bool {
        false
    }
    /// run after the random tier (sweeps over very large inputs, on which a stuck lexer call cannot be told from a slow one)
    fn after_random(&self) -> bool {
        false
    }
}

pub trait Property: Sync + Send {
    fn id(&self) -> &'static str;
    /// how cases are generated and what makes one non-trivial
    fn rule(&self) -> String;
    /// length of the random choice stream
    fn stream_len(&self) -> usize {
        320
    }
    fn cases(&self, tier: Tier) -> u64;
    fn generate(&self, s: &mut Src) -> Case;
    fn check(&self, case: &Case) -> Verdict;
    fn sweeps(&self, _tier: Tier, _seed: u64) -> Vec<Box<dyn Sweep>> {
        vec![]
    }
    fn assumptions(&self) -> Vec<String> {
        vec![]
    }
}

pub fn all() -> Vec<Box<dyn Property>> {
    let mut v: Vec<Box<dyn Property>> = vec![];
    for id in ["C01", "C02", "C03", "C04", "C05", "C06", "C07", "C08", "C09", "C10", "C17", "C18", "C19"] {
        v.push(Box::new(univ::Univ::new(id)));
    }
    v.push(Box::new(refl::C11));
    v.push(Box::new(gramp::GramProp::new("C12")));
    v.push(Box::new(gramp::GramProp::new("C13")));
    v.push(Box::new(gramp::GramProp::new("C14")));
    v.push(Box::new(meta::C15));
    v.push(Box::new(meta::C16));
    v.sort_by_key(|p| p.id());
    v
}
pub fn by_id(id: &str) -> Option<Box<dyn Property>> {
    all().into_iter().find(|p| p.id() == id)
}

// ---------------------------------------------------------------- shared generator mixes

pub fn gram_text(bytes: &[u8]) -> String {
    let mut g = G::new(bytes);
    g.program();
    g.out
}

/// One text case from the shared generator family. `w` are weights for
/// [soup, text, repeat, gram, gram-truncated, lit, num, window]
pub fn text_mix(s: &mut Src, w: [usize; 8]) -> (&'static str, String) {
    let total: usize = w.iter().sum();
    let mut k = s.below(total.max(1));
    let mut which = 0;
    for (i, x) in w.iter().enumerate() {
        if k < *x {
            which = i;
            break;
        }
        k -= x;
    }
    let (name, t) = text_mix_inner(s, which);
    // one case in eight: blanks become other Unicode whitespace
    if s.coin(1, 8) {
        return (name, text::mutate_unicode_ws(s, &t, 96));
    }
    (name, t)
}

fn text_mix_inner(s: &mut Src, which: usize) -> (&'static str, String) {
    match which {
        0 => ("soup", text::g_soup(s, 12)),
        1 => ("text", text::g_text(s, 40)),
        2 => ("repeat", text::g_repeat(s, 40)),
        3 => {
            let b = s.rest().to_vec();
            ("gram", gram_text(&b))
        }
        4 => {
            let cut = s.below(65536);
            let b = s.rest().to_vec();
            let p = gram_text(&b);
            let mut c = (cut * (p.len() + 1)) >> 16;
            while !p.is_char_boundary(c) {
                c -= 1;
            }
            ("gram-trunc", p[..c].to_string())
        }
        5 => ("lit", text::g_lit_case(s)),
        6 => ("num", text::g_num_case(s)),
        _ => ("window", crate::gen::program_window(s, crate::gen::corpus(), 400)),
    }
}

// ---------------------------------------------------------------- shared dump helpers

pub fn is_macro_token(t: T) -> bool {
    t == T::MacroSep || ((t as u16) >= (T::MacroComment as u16) && (t as u16) <= (T::KwmRun as u16))
}
pub fn distinct_types(d: &Dump) -> usize {
    let mut seen = std::collections::BTreeSet::new();
    for t in &d.toks {
        seen.insert(t.t as u16);
    }
    seen.len()
}
pub fn has_zero_width(d: &Dump) -> bool {
    d.toks.iter().any(|t| t.empty() && t.t != T::EOF)
}
pub fn type_labels(d: &Dump, out: &mut Vec<String>) {
    let mut seen = std::collections::BTreeSet::new();
    for t in &d.toks {
        if seen.insert(t.t as u16) {
            out.push(format!("type:{:?}", t.t));
        }
    }
}
pub fn common_labels(d: &Dump, out: &mut Vec<String>) {
    if !d.errs.is_empty() {
        out.push("has-error".into());
    }
    if d.verif.rollbacks > 0 {
        out.push("has-rollback".into());
    }
    if d.verif.errors_rolled_over > 0 {
        out.push("error-raised-before-rollback".into());
    }
    if d.verif.lines_rolled_back > 0 {
        out.push("rollback-crossed-linefeed".into());
    }
    if d.toks.iter().any(|t| is_macro_token(t.t)) {
        out.push("has-macro-token".into());
    }
    if d.toks.iter().any(|t| t.t == T::MacroSep) {
        out.push("has-macro-sep".into());
    }
    if d.toks.iter().any(|t| t.ch == Ch::COMMENT) {
        out.push("has-comment".into());
    }
}
