//! Shared vocabulary of properties, cases and verdicts.
use crate::api::{Lexed, Variant};

#[derive(Debug, Clone, PartialEq)]
pub struct Violation {
    /// property id, e.g. "C04"
    pub prop: &'static str,
    /// stable rule id within the property, e.g. "end-linecol"
    pub rule: String,
    /// signature = classifier of the concrete shape of the violation; known findings are keyed on it
    pub sig: String,
    /// free text for humans
    pub msg: String,
}
impl Violation {
    pub fn new(prop: &'static str, rule: &str, sig: impl Into<String>, msg: impl Into<String>) -> Self {
        Violation { prop, rule: rule.to_string(), sig: sig.into(), msg: msg.into() }
    }
    pub fn simple(prop: &'static str, rule: &str, msg: impl Into<String>) -> Self {
        Violation { prop, rule: rule.to_string(), sig: rule.to_string(), msg: msg.into() }
    }
}

/// One generated case. `kind` selects how `texts`, `bytes`, `n` are interpreted by the property.
#[derive(Debug, Clone, PartialEq, Default)]
pub struct Case {
    /// "text" (texts[0]); "pair" (texts[0], texts[1]); "gram" (choice stream in bytes, selector n)
    pub kind: String,
    pub texts: Vec<String>,
    pub bytes: Vec<u8>,
    pub n: u64,
    /// which generator produced it (label only)
    pub gen: &'static str,
}
impl Case {
    pub fn text(gen: &'static str, s: String) -> Case {
        Case { kind: "text".into(), texts: vec![s], bytes: vec![], n: 0, gen }
    }
    pub fn pair(gen: &'static str, a: String, b: String) -> Case {
        Case { kind: "pair".into(), texts: vec![a, b], bytes: vec![], n: 0, gen }
    }
    pub fn gram(gen: &'static str, bytes: Vec<u8>, n: u64) -> Case {
        Case { kind: "gram".into(), texts: vec![], bytes, n, gen }
    }
    pub fn t0(&self) -> &str {
        self.texts.first().map(|s| s.as_str()).unwrap_or("")
    }
    pub fn t1(&self) -> &str {
        self.texts.get(1).map(|s| s.as_str()).unwrap_or("")
    }
}

#[derive(Debug, Clone, Default)]
pub struct Verdict {
    pub violations: Vec<Violation>,
    /// the case is non-trivial by the property's stated rule
    pub nontrivial: bool,
    /// labels for the coverage histogram
    pub labels: Vec<String>,
    /// case was outside the property's domain (counted, never a failure)
    pub discard: Option<&'static str>,
    /// what identifies the case for distinctness and what is shown as a sample
    pub key: String,
    /// numeric measurements merged by max (e.g. iterations per byte)
    pub maxima: Vec<(&'static str, f64)>,
}
impl Verdict {
    pub fn discard(why: &'static str, key: String) -> Verdict {
        Verdict { discard: Some(why), key, ..Default::default() }
    }
    pub fn label(&mut self, l: impl Into<String>) {
        self.labels.push(l.into());
    }
}

/// lex with a variant and classify failures as C01 material
pub fn lex_ok<'a>(l: &'a Lexed) -> Option<&'a crate::api::Dump> {
    match l {
        Lexed::Ok(d) if !d.verif.budget_exceeded => Some(d),
        _ => None,
    }
}

pub fn variant_label(v: Variant) -> &'static str {
    v.name()
}

pub fn trunc(s: &str, n: usize) -> String {
    if s.chars().count() <= n {
        s.to_string()
    } else {
        let mut t: String = s.chars().take(n).collect();
        t.push('…');
        t
    }
}
