//! Position tables computed from the source text alone (DESIGN 4.1).
pub struct Pos {
    pub len: usize,
    /// for every byte offset 0..=len: number of scalar values before it, or u32::MAX when the
    /// offset is not a char boundary
    pub char_of: Vec<u32>,
    pub line_of: Vec<u32>,
    pub col_of: Vec<u32>,
    pub total_lines: u32,
    pub bom_len: usize,
    pub multibyte: bool,
}

impl Pos {
    pub fn new(src: &str) -> Pos {
        let len = src.len();
        let mut char_of = vec![u32::MAX; len + 1];
        let mut line_of = vec![0u32; len + 1];
        let mut col_of = vec![0u32; len + 1];
        let (mut c, mut l, mut col) = (0u32, 1u32, 0u32);
        for (bo, ch) in src.char_indices() {
            char_of[bo] = c;
            line_of[bo] = l;
            col_of[bo] = col;
            c += 1;
            if ch == '\n' {
                l += 1;
                col = 0;
            } else if bo == 0 && ch == '\u{feff}' {
                col = 0;
            } else {
                col += 1;
            }
        }
        char_of[len] = c;
        line_of[len] = l;
        col_of[len] = col;
        Pos {
            len,
            char_of,
            line_of,
            col_of,
            total_lines: l,
            bom_len: if src.starts_with('\u{feff}') { 3 } else { 0 },
            multibyte: c as usize != len,
        }
    }
    pub fn is_boundary(&self, b: usize) -> bool {
        b <= self.len && self.char_of[b] != u32::MAX
    }
    /// (line, column) of the position just past the last character of `[s, e)`;
    /// for an empty token its start
    pub fn end_pos(&self, src: &str, s: usize, e: usize) -> (u32, u32) {
        if e <= s {
            return (self.line_of[s], self.col_of[s]);
        }
        let mut last = e - 1;
        while !src.is_char_boundary(last) {
            last -= 1;
        }
        (self.line_of[last], self.col_of[last] + 1)
    }
}
