//! Reference lexer for macro-free open code (DESIGN 4.5): a direct longest-match reading of the
//! open-code grammar, sharing no code with the subject (own scanner, keyword table built from the
//! variant names, std number parsing).
use super::kw::kw_table;
use super::universal::{hex_decode, name_cont, name_start};
use crate::api::{Ch, EK, T};
use unicode_ident::is_xid_continue;

#[derive(Debug, Clone, PartialEq)]
pub struct RT {
    pub t: T,
    pub ch: Ch,
    pub b: usize,
}
#[derive(Debug, Clone, PartialEq)]
pub struct RE {
    pub k: EK,
    pub b: usize,
}

/// no '%' directly followed by '*' or a name start, no '&' run directly followed by a name start
pub fn is_macro_free(s: &str) -> bool {
    let mut it = s.chars().peekable();
    while let Some(c) = it.next() {
        if c == '%' {
            if let Some(&n) = it.peek() {
                if n == '*' || name_start(n) {
                    return false;
                }
            }
        } else if c == '&' {
            while it.peek() == Some(&'&') {
                it.next();
            }
            if let Some(&n) = it.peek() {
                if name_start(n) {
                    return false;
                }
            }
        }
    }
    true
}

pub fn ref_lex(s: &str) -> (Vec<RT>, Vec<RE>) {
    let kw = kw_table();
    let mut toks: Vec<RT> = vec![];
    let mut errs: Vec<RE> = vec![];
    let n = s.len();
    let mut p = if s.starts_with('\u{feff}') { 3 } else { 0 };
    let mut pending = false;
    let mut last_def: Option<T> = None;
    let peek = |p: usize| s[p..].chars().next();
    let peek2 = |p: usize| {
        let mut it = s[p..].chars();
        it.next();
        it.next()
    };
    macro_rules! emit {
        ($t:expr, $ch:expr, $b:expr) => {{
            toks.push(RT { t: $t, ch: $ch, b: $b });
            if $ch == Ch::DEFAULT {
                last_def = Some($t);
            }
        }};
    }
    while p < n {
        let c = peek(p).unwrap();
        let st = p;
        if c.is_whitespace() {
            while p < n && peek(p).unwrap().is_whitespace() {
                p += peek(p).unwrap().len_utf8();
            }
            emit!(T::WS, Ch::HIDDEN, st);
            continue;
        }
        if c == '\'' || c == '"' {
            p += 1;
            let mut closed = false;
            while p < n {
                let d = peek(p).unwrap();
                p += d.len_utf8();
                if d == c {
                    if p < n && peek(p) == Some(c) {
                        p += 1;
                        continue;
                    }
                    closed = true;
                    break;
                }
            }
            if !closed {
                emit!(T::StringLiteral, Ch::DEFAULT, st);
                errs.push(RE { k: EK::UnterminatedStringLiteral, b: n });
                pending = true;
                continue;
            }
            let body = &s[st + 1..p - 1];
            let t = match peek(p) {
                Some('b' | 'B') => { p += 1; T::BitTestingLiteral }
                Some('d' | 'D') => {
                    p += 1;
                    if matches!(peek(p), Some('t' | 'T')) { p += 1; T::DateTimeLiteral } else { T::DateLiteral }
                }
                Some('n' | 'N') => { p += 1; T::NameLiteral }
                Some('t' | 'T') => { p += 1; T::TimeLiteral }
                Some('x' | 'X') => { p += 1; T::HexStringLiteral }
                _ => T::StringLiteral,
            };
            emit!(t, Ch::DEFAULT, st);
            if t == T::HexStringLiteral && hex_decode(body).is_none() {
                errs.push(RE { k: EK::InvalidHexStringConstant, b: p });
            }
            pending = true;
            continue;
        }
        if c == ';' {
            p += 1;
            emit!(T::SEMI, Ch::DEFAULT, st);
            pending = false;
            continue;
        }
        if c == '/' {
            if peek2(p) == Some('*') {
                p += 2;
                let mut closed = false;
                while p < n {
                    let d = peek(p).unwrap();
                    p += d.len_utf8();
                    if d == '*' && peek(p) == Some('/') {
                        p += 1;
                        closed = true;
                        break;
                    }
                }
                emit!(T::CStyleComment, Ch::COMMENT, st);
                if !closed {
                    errs.push(RE { k: EK::UnterminatedComment, b: n });
                }
                continue;
            }
            p += 1;
            emit!(T::FSLASH, Ch::DEFAULT, st);
            pending = true;
            continue;
        }
        if c == '&' {
            while p < n && peek(p) == Some('&') {
                p += 1;
            }
            emit!(T::AMP, Ch::DEFAULT, st);
            pending = true;
            continue;
        }
        if c == '%' {
            p += 1;
            emit!(T::PERCENT, Ch::DEFAULT, st);
            pending = true;
            continue;
        }
        if c.is_ascii_digit() {
            let (len, t, es) = numeric(&s[p..], false);
            p += len;
            emit!(t, Ch::DEFAULT, st);
            for k in es {
                errs.push(RE { k, b: p });
            }
            pending = true;
            continue;
        }
        if name_start(c) {
            let mut ascii = true;
            while p < n {
                let d = peek(p).unwrap();
                if name_cont(d) {
                    if !d.is_ascii() { ascii = false; }
                    p += d.len_utf8();
                } else {
                    break;
                }
            }
            let up = s[st..p].to_ascii_uppercase();
            if ascii {
                if let Some(&t) = kw.get(&up) {
                    emit!(t, Ch::DEFAULT, st);
                    pending = true;
                    continue;
                }
            }
            let dl = match up.as_str() {
                "DATALINES" | "CARDS" | "LINES" => Some(";"),
                "DATALINES4" | "CARDS4" | "LINES4" => Some(";;;;"),
                _ => None,
            };
            if let (true, Some(ending)) = (ascii, dl) {
                if matches!(last_def, None | Some(T::SEMI)) {
                    let mut q = p;
                    while q < n && peek(q).unwrap().is_whitespace() {
                        q += peek(q).unwrap().len_utf8();
                    }
                    if q < n && peek(q) == Some(';') {
                        p = q + 1;
                        emit!(T::DatalinesStart, Ch::DEFAULT, st);
                        let ds = p;
                        let found = s[p..].find(ending).map(|i| p + i);
                        emit!(T::DatalinesData, Ch::DEFAULT, ds);
                        match found {
                            Some(q) => {
                                emit!(T::SEMI, Ch::DEFAULT, q);
                                p = q + ending.len();
                            }
                            None => {
                                errs.push(RE { k: EK::UnterminatedDatalines, b: n });
                                emit!(T::SEMI, Ch::DEFAULT, n);
                                p = n;
                            }
                        }
                        pending = false;
                        continue;
                    }
                }
            }
            emit!(T::Identifier, Ch::DEFAULT, st);
            pending = true;
            continue;
        }
        let two = |a: char| peek2(p) == Some(a);
        let (t, len, ch) = match c {
            '*' => {
                if !pending {
                    let e = s[p..].find(';').map(|i| p + i + 1).unwrap_or(n);
                    p = e;
                    emit!(T::PredictedCommentStat, Ch::COMMENT, st);
                    continue;
                }
                if two('*') { (T::STAR2, 2, Ch::DEFAULT) } else { (T::STAR, 1, Ch::DEFAULT) }
            }
            '(' => (T::LPAREN, 1, Ch::DEFAULT),
            ')' => (T::RPAREN, 1, Ch::DEFAULT),
            '{' => (T::LCURLY, 1, Ch::DEFAULT),
            '}' => (T::RCURLY, 1, Ch::DEFAULT),
            '[' => (T::LBRACK, 1, Ch::DEFAULT),
            ']' => (T::RBRACK, 1, Ch::DEFAULT),
            '!' => if two('!') { (T::EXCL2, 2, Ch::DEFAULT) } else { (T::EXCL, 1, Ch::DEFAULT) },
            '¦' => if two('¦') { (T::BPIPE2, 4, Ch::DEFAULT) } else { (T::BPIPE, 2, Ch::DEFAULT) },
            '|' => if two('|') { (T::PIPE2, 2, Ch::DEFAULT) } else { (T::PIPE, 1, Ch::DEFAULT) },
            '¬' | '^' | '~' | '∘' => if two('=') { (T::NE, c.len_utf8() + 1, Ch::DEFAULT) } else { (T::NOT, c.len_utf8(), Ch::DEFAULT) },
            '+' => (T::PLUS, 1, Ch::DEFAULT),
            '-' => (T::MINUS, 1, Ch::DEFAULT),
            '<' => if two('=') { (T::LE, 2, Ch::DEFAULT) } else if two('>') { (T::LTGT, 2, Ch::DEFAULT) } else { (T::LT, 1, Ch::DEFAULT) },
            '>' => if two('=') { (T::GE, 2, Ch::DEFAULT) } else if two('<') { (T::GTLT, 2, Ch::DEFAULT) } else { (T::GT, 1, Ch::DEFAULT) },
            '.' => {
                if peek2(p).map_or(false, |d| d.is_ascii_digit()) {
                    let (len, t, es) = numeric(&s[p..], true);
                    p += len;
                    emit!(t, Ch::DEFAULT, st);
                    for k in es {
                        errs.push(RE { k, b: p });
                    }
                    pending = true;
                    continue;
                }
                (T::DOT, 1, Ch::DEFAULT)
            }
            ',' => (T::COMMA, 1, Ch::DEFAULT),
            ':' => (T::COLON, 1, Ch::DEFAULT),
            '=' => if two('*') { (T::SoundsLike, 2, Ch::DEFAULT) } else { (T::ASSIGN, 1, Ch::DEFAULT) },
            '$' => {
                let mut q = p + 1;
                if q < n && name_start(peek(q).unwrap()) {
                    q += peek(q).unwrap().len_utf8();
                    while q < n && is_xid_continue(peek(q).unwrap()) {
                        q += peek(q).unwrap().len_utf8();
                    }
                }
                while q < n && s.as_bytes()[q].is_ascii_digit() {
                    q += 1;
                }
                if q < n && s.as_bytes()[q] == b'.' {
                    q += 1;
                    while q < n && s.as_bytes()[q].is_ascii_digit() {
                        q += 1;
                    }
                    (T::CharFormat, q - p, Ch::DEFAULT)
                } else {
                    (T::DOLLAR, 1, Ch::DEFAULT)
                }
            }
            '@' => (T::AT, 1, Ch::DEFAULT),
            '#' => (T::HASH, 1, Ch::DEFAULT),
            '?' => (T::QUESTION, 1, Ch::DEFAULT),
            _ => (T::CatchAll, c.len_utf8(), Ch::HIDDEN),
        };
        p += len;
        emit!(t, ch, st);
        pending = true;
    }
    emit!(T::EOF, Ch::DEFAULT, n);
    let _ = last_def;
    (toks, errs)
}

/// returns (len, type, errors) of the numeric literal at the start of `s`
pub fn numeric(s: &str, seen_dot: bool) -> (usize, T, Vec<EK>) {
    let b = s.as_bytes();
    let n = b.len();
    let mut i = 0;
    while i < n && b[i].is_ascii_digit() {
        i += 1;
    }
    let int_digits = i;
    let mut has_dot = false;
    if i < n && b[i] == b'.' {
        has_dot = true;
        i += 1;
        while i < n && b[i].is_ascii_digit() {
            i += 1;
        }
    }
    let mut dec_err = None;
    let mut has_exp = false;
    if i < n && (b[i] == b'e' || b[i] == b'E') {
        let mut j = i + 1;
        if j < n && (b[j] == b'+' || b[j] == b'-') {
            j += 1;
        }
        let ds = j;
        while j < n && b[j].is_ascii_digit() {
            j += 1;
        }
        if j > ds {
            has_exp = true;
            i = j;
        } else {
            dec_err = Some(EK::InvalidNumericLiteral);
            i = ds;
        }
    }
    let dec_len = i;
    let dec_t = if dec_err.is_some() {
        T::FloatLiteral
    } else if has_exp {
        T::FloatExponentLiteral
    } else if has_dot {
        T::FloatLiteral
    } else if s[..int_digits].parse::<u64>().is_ok() {
        T::IntegerLiteral
    } else {
        T::FloatLiteral
    };
    let mut h = 0;
    if !seen_dot {
        while h < n && b[h].is_ascii_hexdigit() {
            h += 1;
        }
    }
    let use_hex = if seen_dot || h == 0 {
        false
    } else if h > dec_len {
        true
    } else if h < dec_len {
        false
    } else {
        h < n && (b[h] == b'x' || b[h] == b'X')
    };
    if !use_hex {
        return (dec_len, dec_t, dec_err.into_iter().collect());
    }
    let mut es = vec![];
    let mut len = h;
    let t = if u64::from_str_radix(&s[..h], 16).is_ok() {
        T::IntegerLiteral
    } else {
        es.push(EK::InvalidNumericLiteral);
        T::FloatLiteral
    };
    if h < n && (b[h] == b'x' || b[h] == b'X') {
        len += 1;
    } else {
        es.push(EK::UnterminatedHexNumericLiteral);
    }
    (len, t, es)
}
