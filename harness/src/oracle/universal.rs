//! Input-universal oracles: invariants over a `Dump` computed from the source text by code that
//! shares nothing with the lexer (C02-C10, the output parts of C01).
use super::kw::{is_builtin_with_args, is_kw, is_kwm, keywords_of};
use super::pos::Pos;
use crate::api::{Ch, Dump, Pl, Tok, EK, T};
use crate::core::Violation;
use unicode_ident::{is_xid_continue, is_xid_start};

pub fn name_start(c: char) -> bool {
    c == '_' || is_xid_start(c)
}
pub fn name_cont(c: char) -> bool {
    if c.is_ascii() {
        c.is_ascii_alphanumeric() || c == '_'
    } else {
        is_xid_continue(c)
    }
}
pub const SYMBOL_CHARS: &str = "*(){}[]!¦|¬^~∘+-<>.,:=$@#?;/&%'\"";

fn sym_alts(t: T) -> Option<&'static [&'static str]> {
    Some(match t {
        T::PERCENT => &["%"],
        T::LPAREN => &["("],
        T::RPAREN => &[")"],
        T::LCURLY => &["{"],
        T::RCURLY => &["}"],
        T::LBRACK => &["["],
        T::RBRACK => &["]"],
        T::STAR => &["*"],
        T::EXCL => &["!"],
        T::EXCL2 => &["!!"],
        T::BPIPE => &["¦"],
        T::BPIPE2 => &["¦¦"],
        T::PIPE2 => &["||"],
        T::STAR2 => &["**"],
        T::NOT => &["¬", "^", "~", "∘"],
        T::FSLASH => &["/"],
        T::PLUS => &["+"],
        T::MINUS => &["-"],
        T::GTLT => &["><"],
        T::LTGT => &["<>"],
        T::LT => &["<"],
        T::LE => &["<="],
        T::NE => &["¬=", "^=", "~=", "∘="],
        T::GT => &[">"],
        T::GE => &[">="],
        T::SoundsLike => &["=*"],
        T::PIPE => &["|"],
        T::DOT => &["."],
        T::COMMA => &[","],
        T::COLON => &[":"],
        T::ASSIGN => &["="],
        T::DOLLAR => &["$"],
        T::AT => &["@"],
        T::HASH => &["#"],
        T::QUESTION => &["?"],
        _ => return None,
    })
}

pub fn is_quoted_lit(t: T) -> bool {
    matches!(t, T::StringLiteral | T::BitTestingLiteral | T::DateLiteral | T::DateTimeLiteral | T::NameLiteral | T::TimeLiteral | T::HexStringLiteral)
}
pub fn is_expr_end(t: T) -> bool {
    matches!(
        t,
        T::StringExprEnd | T::BitTestingLiteralExprEnd | T::DateLiteralExprEnd | T::DateTimeLiteralExprEnd | T::NameLiteralExprEnd | T::TimeLiteralExprEnd | T::HexStringLiteralExprEnd
    )
}
pub fn is_numeric(t: T) -> bool {
    matches!(t, T::IntegerLiteral | T::FloatLiteral | T::FloatExponentLiteral)
}
fn lit_suffix(t: T) -> &'static str {
    match t {
        T::BitTestingLiteral | T::BitTestingLiteralExprEnd => "B",
        T::DateLiteral | T::DateLiteralExprEnd => "D",
        T::DateTimeLiteral | T::DateTimeLiteralExprEnd => "DT",
        T::NameLiteral | T::NameLiteralExprEnd => "N",
        T::TimeLiteral | T::TimeLiteralExprEnd => "T",
        T::HexStringLiteral | T::HexStringLiteralExprEnd => "X",
        _ => "",
    }
}

/// SAS quoting undone: doubled quote characters collapsed
pub fn unq_q(body: &str, q: char) -> String {
    let qq: String = [q, q].iter().collect();
    body.replace(&qq, &q.to_string())
}
/// %-quoted characters unquoted, left to right
pub fn unq_pct(text: &str) -> (String, bool) {
    let cs: Vec<char> = text.chars().collect();
    let mut out = String::with_capacity(text.len());
    let mut j = 0;
    let mut had = false;
    while j < cs.len() {
        if cs[j] == '%' && j + 1 < cs.len() && matches!(cs[j + 1], '\'' | '"' | '%' | '(' | ')') {
            out.push(cs[j + 1]);
            j += 2;
            had = true;
        } else {
            out.push(cs[j]);
            j += 1;
        }
    }
    (out, had)
}
/// hex string body: Some(decoded Latin-1) iff it consists of hex digit pairs (commas allowed)
pub fn hex_decode(body: &str) -> Option<String> {
    let cl: Vec<char> = body.chars().filter(|&c| c != ',').collect();
    if cl.len() % 2 != 0 || !cl.iter().all(|c| c.is_ascii_hexdigit()) {
        return None;
    }
    let mut out = String::new();
    for p in cl.chunks(2) {
        let v = p[0].to_digit(16).unwrap() * 16 + p[1].to_digit(16).unwrap();
        out.push(char::from_u32(v).unwrap());
    }
    Some(out)
}

pub struct Ctx<'a> {
    pub src: &'a str,
    pub d: &'a Dump,
    pub pos: &'a Pos,
}
impl<'a> Ctx<'a> {
    pub fn raw(&self, t: &Tok) -> &'a str {
        self.src.get(t.b as usize..t.e as usize).unwrap_or("")
    }
    pub fn has_err_on(&self, i: usize, k: EK) -> bool {
        self.d.errs.iter().any(|e| e.k == k && e.last == Some(i as u32))
    }
    pub fn pay(&self, t: &Tok) -> Option<&'a str> {
        match t.pl {
            Pl::Str(a, b) => self.d.lit.get(a as usize..b as usize),
            _ => None,
        }
    }
}

/// Structural sanity that everything else relies on. If this fails the other oracles are skipped.
pub fn c02(cx: &Ctx, v: &mut Vec<Violation>) -> bool {
    let (src, d, pos) = (cx.src, cx.d, cx.pos);
    let n = d.toks.len();
    let len = src.len();
    let mut ok = true;
    let mut push = |v: &mut Vec<Violation>, rule: &str, msg: String| {
        v.push(Violation::simple("C02", rule, msg));
    };
    for (i, name) in &d.accessor_failures {
        push(v, "accessor", format!("token {i}: {name}"));
        ok = false;
    }
    if n == 0 || d.token_count as usize != n {
        push(v, "no-tokens", format!("token_count={} collected={n}", d.token_count));
        return false;
    }
    if d.toks[n - 1].t != T::EOF {
        push(v, "last-not-eof", format!("last token is {:?}", d.toks[n - 1].t));
        ok = false;
    }
    let eofs = d.toks.iter().filter(|t| t.t == T::EOF).count();
    if eofs != 1 {
        push(v, "eof-count", format!("{eofs} EOF tokens"));
        ok = false;
    }
    if d.toks[0].b as usize != pos.bom_len {
        push(v, "first-start", format!("first token starts at {} but BOM length is {}", d.toks[0].b, pos.bom_len));
        ok = false;
    }
    if d.toks[n - 1].b as usize != len || d.toks[n - 1].e as usize != len {
        push(v, "eof-at-end", format!("EOF at {}..{} but source length is {len}", d.toks[n - 1].b, d.toks[n - 1].e));
        ok = false;
    }
    let mut concat_ok = true;
    let mut expect = pos.bom_len;
    for (i, t) in d.toks.iter().enumerate() {
        let (st, en) = (t.b as usize, t.e as usize);
        if !pos.is_boundary(st) || !pos.is_boundary(en) {
            push(v, "boundary", format!("token {i} {:?} range {st}..{en} not on char boundaries (len {len})", t.t));
            return false;
        }
        if en < st {
            push(v, "order", format!("token {i} {:?} ends before it starts: {st}..{en}", t.t));
            return false;
        }
        if i + 1 < n && d.toks[i + 1].b < t.b {
            push(v, "order", format!("token {} starts before token {i}", i + 1));
            return false;
        }
        if i + 1 < n && d.toks[i + 1].b != t.e {
            push(v, "tiling", format!("token {i} ends at {en} but token {} starts at {}", i + 1, d.toks[i + 1].b));
            ok = false;
        }
        if st != expect {
            concat_ok = false;
        }
        expect = en;
        if d.raw_none[i] != (st == en) {
            push(v, "raw-none", format!("token {i} {:?} range {st}..{en} raw_text is_none={}", t.t, d.raw_none[i]));
            ok = false;
        }
        if !d.raw_matches_range[i] {
            push(v, "raw-text", format!("token {i} {:?}: get_token_raw_text differs from the source slice {st}..{en}", t.t));
            ok = false;
        }
        if !d.resolved_text_ok[i] {
            push(v, "resolved-text", format!("token {i} {:?}: get_token_resolved_text is neither the payload slice nor the raw text", t.t));
            ok = false;
        }
    }
    if !concat_ok || expect != len {
        push(v, "concat", "concatenated raw texts differ from the source (after the BOM)".into());
        ok = false;
    }
    ok
}

pub fn c03(cx: &Ctx, v: &mut Vec<Violation>) {
    let (src, d, pos) = (cx.src, cx.d, cx.pos);
    for (i, t) in d.toks.iter().enumerate() {
        if t.c != pos.char_of[t.b as usize] {
            v.push(Violation::new("C03", "tok-char-offset", format!("tok-char-offset:{:?}", t.t), format!("token {i} {:?} byte {} has char offset {} expected {}", t.t, t.b, t.c, pos.char_of[t.b as usize])));
        }
        if t.ce != pos.char_of[t.e as usize] {
            v.push(Violation::new("C03", "tok-char-end", format!("tok-char-end:{:?}", t.t), format!("token {i} {:?} end byte {} has char end {} expected {}", t.t, t.e, t.ce, pos.char_of[t.e as usize])));
        }
    }
    for e in &d.errs {
        let off = e.b as usize;
        if pos.is_boundary(off) && e.c != pos.char_of[off] {
            v.push(Violation::new("C03", "err-char-offset", format!("err-char-offset:{:?}", e.k), format!("error {:?} at byte {} has char offset {} expected {}", e.k, e.b, e.c, pos.char_of[off])));
        }
    }
    // slicing by code points equals slicing by bytes (only worth doing with multi-byte text)
    if pos.multibyte {
        let chars: Vec<char> = src.chars().collect();
        for (i, t) in d.toks.iter().enumerate() {
            let (a, b) = (t.c as usize, t.ce as usize);
            if a <= b && b <= chars.len() {
                let by_cp: String = chars[a..b].iter().collect();
                if by_cp != cx.raw(t) {
                    v.push(Violation::new("C03", "codepoint-slice", format!("codepoint-slice:{:?}", t.t), format!("token {i}: source[{a}:{b}] by code points is {:?}, by bytes {:?}", by_cp, cx.raw(t))));
                }
            } else {
                v.push(Violation::new("C03", "codepoint-slice", format!("codepoint-slice:{:?}", t.t), format!("token {i}: code point range {a}..{b} invalid")));
            }
        }
    }
}

pub fn c04(cx: &Ctx, v: &mut Vec<Violation>) {
    let (src, d, pos) = (cx.src, cx.d, cx.pos);
    for (i, t) in d.toks.iter().enumerate() {
        let (st, en) = (t.b as usize, t.e as usize);
        if t.line != pos.line_of[st] || t.col != pos.col_of[st] {
            v.push(Violation::new("C04", "start-linecol", format!("start-linecol:{:?}", t.t), format!("token {i} {:?} at byte {st}: start L{}:{} expected L{}:{}", t.t, t.line, t.col, pos.line_of[st], pos.col_of[st])));
        }
        let (xl, xc) = pos.end_pos(src, st, en);
        if t.eline != xl || t.ecol != xc {
            v.push(Violation::new("C04", "end-linecol", format!("end-linecol:{:?}", t.t), format!("token {i} {:?} bytes {st}..{en}: end L{}:{} expected L{xl}:{xc}", t.t, t.eline, t.ecol)));
        }
    }
    if d.lines != pos.total_lines {
        v.push(Violation::simple("C04", "line-count", format!("line_count {} expected {}", d.lines, pos.total_lines)));
    }
    for e in &d.errs {
        let off = e.b as usize;
        if pos.is_boundary(off) && (e.line != pos.line_of[off] || e.col != pos.col_of[off]) {
            v.push(Violation::new("C04", "err-linecol", format!("err-linecol:{:?}", e.k), format!("error {:?} at byte {off}: L{}:{} expected L{}:{}", e.k, e.line, e.col, pos.line_of[off], pos.col_of[off])));
        }
    }
}

pub fn c05(cx: &Ctx, v: &mut Vec<Violation>) {
    let d = cx.d;
    if d.resolved.len() != d.toks.len() {
        v.push(Violation::simple("C05", "len", format!("resolved vector has {} entries for {} tokens", d.resolved.len(), d.toks.len())));
        return;
    }
    for (i, (r, t)) in d.resolved.iter().zip(d.toks.iter()).enumerate() {
        let mut bad: Vec<&str> = vec![];
        if r.ch != t.ch { bad.push("channel"); }
        if r.t != t.t { bad.push("token_type"); }
        if r.index != i as u32 { bad.push("token_index"); }
        if r.start != t.c { bad.push("start"); }
        if r.stop != t.ce { bad.push("stop"); }
        if r.line != t.line { bad.push("line"); }
        if r.column != t.col { bad.push("column"); }
        if r.end_line != t.eline { bad.push("end_line"); }
        if r.end_column != t.ecol { bad.push("end_column"); }
        if r.pl != t.pl { bad.push("payload"); }
        if !bad.is_empty() {
            v.push(Violation::new("C05", "field", format!("field:{}", bad.join("+")), format!("token {i} {:?}: bulk view differs from accessors in {:?}: bulk={:?} accessors={:?}", t.t, bad, r, t)));
        }
    }
}

fn digits(r: &[u8]) -> bool {
    !r.is_empty() && r.iter().all(|b| b.is_ascii_digit())
}
fn mantissa(r: &[u8]) -> bool {
    if let Some(p) = r.iter().position(|&b| b == b'.') {
        let (a, bb) = (&r[..p], &r[p + 1..]);
        a.iter().all(|b| b.is_ascii_digit()) && bb.iter().all(|b| b.is_ascii_digit()) && (!a.is_empty() || !bb.is_empty())
    } else {
        digits(r)
    }
}
fn hexrun(r: &[u8]) -> bool {
    !r.is_empty() && r[0].is_ascii_digit() && r.iter().all(|b| b.is_ascii_hexdigit())
}
fn hexrun_x(r: &[u8]) -> bool {
    r.len() >= 2 && matches!(r[r.len() - 1], b'x' | b'X') && hexrun(&r[..r.len() - 1])
}
fn exp_split(bs: &[u8]) -> Option<(&[u8], &[u8])> {
    bs.iter().position(|&b| b == b'e' || b == b'E').map(|p| (&bs[..p], &bs[p + 1..]))
}

/// C06: per-type shape table and channel rules (DESIGN 4.2)
pub fn c06(cx: &Ctx, v: &mut Vec<Violation>) {
    let (src, d) = (cx.src, cx.d);
    let n = d.toks.len();
    let len = src.len();
    for (i, t) in d.toks.iter().enumerate() {
        let raw = cx.raw(t);
        let up = raw.to_ascii_uppercase();
        let en = t.e as usize;
        let mut bad: Option<String> = None;
        let mut expect_ch = Ch::DEFAULT;
        let ty = t.t;
        match ty {
            T::EOF => {
                if !raw.is_empty() { bad = Some("non-empty".into()); }
                if i + 1 != n { bad = Some("not last".into()); }
            }
            T::MacroSep | T::MacroStringEmpty => {
                if !raw.is_empty() { bad = Some("non-empty".into()); }
            }
            T::CatchAll => {
                expect_ch = Ch::HIDDEN;
                let mut it = raw.chars();
                match (it.next(), it.next()) {
                    (Some(c), None) => {
                        if c.is_whitespace() || name_start(c) || c.is_ascii_digit() || SYMBOL_CHARS.contains(c) {
                            bad = Some(format!("catch-all for lexable char {c:?}"));
                        }
                    }
                    _ => bad = Some("not exactly one scalar value".into()),
                }
            }
            T::WS => {
                expect_ch = Ch::HIDDEN;
                if raw.is_empty() || !raw.chars().all(char::is_whitespace) { bad = Some("not non-empty whitespace".into()); }
            }
            T::SEMI => {
                // `;`, the `;;;;` that ends a datalines4 block, or empty (virtual; C09 ties it to its error)
                if !raw.chars().all(|c| c == ';') { bad = Some("not only terminator characters".into()); }
            }
            T::AMP => {
                if raw.is_empty() || !raw.chars().all(|c| c == '&') { bad = Some("not ampersands".into()); }
            }
            T::COLON if t.ch == Ch::HIDDEN => {
                expect_ch = Ch::HIDDEN;
                if raw != ":" { bad = Some("text".into()); }
            }
            T::LPAREN | T::RPAREN if t.ch == Ch::HIDDEN => {
                expect_ch = Ch::HIDDEN;
                let want = if ty == T::LPAREN { "(" } else { ")" };
                if !(raw.is_empty() || raw == want) { bad = Some("text".into()); }
            }
            _ if sym_alts(ty).is_some() => {
                let alts = sym_alts(ty).unwrap();
                let plain = alts.contains(&raw);
                let pct = raw.starts_with('%') && alts.contains(&&raw[1..]) && matches!(ty, T::ASSIGN | T::NOT | T::NE);
                let virt = raw.is_empty() && matches!(ty, T::LPAREN | T::RPAREN | T::ASSIGN | T::COMMA | T::FSLASH);
                if !(plain || pct || virt) { bad = Some("symbol text".into()); }
            }
            T::IntegerLiteral | T::FloatLiteral | T::FloatExponentLiteral => {
                let bs = raw.as_bytes();
                let e_inv = cx.has_err_on(i, EK::InvalidNumericLiteral);
                let e_unt = cx.has_err_on(i, EK::UnterminatedHexNumericLiteral);
                let ok = match ty {
                    T::IntegerLiteral => (digits(bs) && !e_unt && !e_inv) || (hexrun_x(bs) && !e_unt && !e_inv) || (e_unt && hexrun(bs)),
                    T::FloatExponentLiteral => {
                        !e_inv && !e_unt
                            && exp_split(bs).map_or(false, |(m, ex)| {
                                let ex = if !ex.is_empty() && (ex[0] == b'+' || ex[0] == b'-') { &ex[1..] } else { ex };
                                mantissa(m) && digits(ex)
                            })
                    }
                    _ => {
                        if !e_inv && !e_unt {
                            mantissa(bs)
                        } else {
                            // a malformed literal, whichever of the two error kinds names it (C08's last sentence)
                            let empty_exp = exp_split(bs).map_or(false, |(m, ex)| mantissa(m) && (ex.is_empty() || ex == b"+" || ex == b"-"));
                            empty_exp || hexrun(bs) || hexrun_x(bs)
                        }
                    }
                };
                if !ok {
                    // classify the one known deviation shape: overflowing hex run followed by a fraction
                    let f10 = e_inv && ty == T::FloatLiteral && {
                        let core = bs.strip_suffix(b"x").or_else(|| bs.strip_suffix(b"X")).unwrap_or(bs);
                        core.iter().position(|&b| b == b'.').map_or(false, |p| {
                            let (a, b2) = (&core[..p], &core[p + 1..]);
                            hexrun(a) && b2.iter().all(|b| b.is_ascii_hexdigit()) && u64::from_str_radix(std::str::from_utf8(a).unwrap(), 16).is_err()
                        })
                    };
                    bad = Some(if f10 { "numeric:overflowing-hex-with-fraction".into() } else { format!("numeric shape (invalid={e_inv} missing-x={e_unt})") });
                }
            }
            _ if is_quoted_lit(ty) => {
                let suf = lit_suffix(ty);
                let q = raw.chars().next().unwrap_or(' ');
                let unterminated = cx.has_err_on(i, EK::UnterminatedStringLiteral);
                if q != '\'' && q != '"' {
                    bad = Some("no opening quote".into());
                } else if unterminated {
                    if ty != T::StringLiteral || en != len { bad = Some("unterminated literal not running to end of input".into()); }
                    else if raw[1..].replace(&format!("{q}{q}"), "").contains(q) { bad = Some("unterminated literal contains its closing quote".into()); }
                } else if raw.len() < 2 + suf.len() || !up.ends_with(suf) {
                    bad = Some("closing quote / suffix".into());
                } else {
                    let body_end = raw.len() - suf.len();
                    if !raw[..body_end].ends_with(q) || body_end < 2 {
                        bad = Some("closing quote / suffix".into());
                    } else {
                        let body = &raw[1..body_end - 1];
                        let qq: String = [q, q].iter().collect();
                        if body.replace(&qq, "").contains(q) { bad = Some("lone quote inside body".into()); }
                    }
                }
            }
            T::StringExprStart => { if raw != "\"" { bad = Some("text".into()); } }
            T::StringExprText => { if raw.is_empty() || raw.replace("\"\"", "").contains('"') { bad = Some("empty or lone quote".into()); } }
            T::StringExprEnd => {
                if raw != "\"" {
                    if !cx.has_err_on(i, EK::UnterminatedStringLiteral) { bad = Some("text".into()); }
                    else if en != len { bad = Some("unterminated tail not running to end of input".into()); }
                    else if raw.replace("\"\"", "").contains('"') { bad = Some("unterminated tail contains a closing quote".into()); }
                }
            }
            T::BitTestingLiteralExprEnd | T::DateLiteralExprEnd | T::DateTimeLiteralExprEnd | T::NameLiteralExprEnd | T::TimeLiteralExprEnd | T::HexStringLiteralExprEnd => {
                if up != format!("\"{}", lit_suffix(ty)) { bad = Some("text".into()); }
            }
            T::CStyleComment => {
                expect_ch = Ch::COMMENT;
                let unt = cx.has_err_on(i, EK::UnterminatedComment);
                if !raw.starts_with("/*") {
                    bad = Some("no opener".into());
                } else if unt {
                    if en != len || raw[2..].contains("*/") { bad = Some("unterminated comment shape".into()); }
                } else if !(raw.len() >= 4 && raw.ends_with("*/") && raw[2..].find("*/") == Some(raw.len() - 4)) {
                    bad = Some("closer".into());
                }
            }
            T::PredictedCommentStat => {
                expect_ch = Ch::COMMENT;
                let body = raw.strip_suffix(';').unwrap_or(raw);
                if !raw.starts_with('*') || !(raw.ends_with(';') || en == len) || body.contains(';') { bad = Some("comment".into()); }
            }
            T::MacroComment => {
                expect_ch = Ch::COMMENT;
                let mut okc = raw.starts_with("%*");
                if okc {
                    let mut q: Option<char> = None;
                    let mut endpos: Option<usize> = None;
                    for (bi, c) in raw.char_indices().skip(2) {
                        match (q, c) {
                            (None, ';') => { endpos = Some(bi); break; }
                            (None, '\'') | (None, '"') => q = Some(c),
                            (Some(x), y) if x == y => q = None,
                            _ => {}
                        }
                    }
                    okc = match endpos { Some(p) => p + 1 == raw.len(), None => en == len };
                }
                if !okc { bad = Some("comment".into()); }
            }
            T::DatalinesStart => {
                let core = up.strip_suffix(';').map(|c| c.trim_end_matches(char::is_whitespace));
                if !matches!(core, Some("DATALINES" | "CARDS" | "LINES" | "DATALINES4" | "CARDS4" | "LINES4")) { bad = Some("text".into()); }
            }
            T::DatalinesData => {
                if i == 0 || d.toks[i - 1].t != T::DatalinesStart {
                    bad = Some("not after DatalinesStart".into());
                } else {
                    let kw = cx.raw(&d.toks[i - 1]).to_ascii_uppercase();
                    let four = kw.starts_with("DATALINES4") || kw.starts_with("CARDS4") || kw.starts_with("LINES4");
                    if (four && raw.contains(";;;;")) || (!four && raw.contains(';')) { bad = Some("contains its terminator".into()); }
                }
            }
            T::CharFormat => {
                let mut cs = raw.chars().peekable();
                let mut ok = cs.next() == Some('$');
                if let Some(&c) = cs.peek() {
                    if name_start(c) {
                        cs.next();
                        while let Some(&c) = cs.peek() { if is_xid_continue(c) { cs.next(); } else { break; } }
                    }
                }
                // the name may itself end in digits (XID_Continue); then width digits, '.', decimals
                let rest: String = cs.collect();
                match rest.find('.') {
                    Some(p) => { if !rest[..p].bytes().all(|b| b.is_ascii_digit()) || !rest[p + 1..].bytes().all(|b| b.is_ascii_digit()) { ok = false; } }
                    None => ok = false,
                }
                if !ok { bad = Some("text".into()); }
            }
            T::MacroVarResolve => {
                let k = match t.pl { Pl::Int(k) => k, _ => 99 };
                if k > 31 || raw.len() as u64 != (1u64 << k.min(40)) || !raw.chars().all(|c| c == '&') { bad = Some("ampersand count / payload".into()); }
            }
            T::MacroVarTerm => { if raw != "." { bad = Some("text".into()); } }
            T::MacroString => { if raw.is_empty() { bad = Some("empty".into()); } }
            T::MacroLabel | T::MacroIdentifier | T::Identifier => {
                let r = if ty == T::Identifier { Some(raw) } else { raw.strip_prefix('%') };
                let ok = r.map_or(false, |r| { let mut cs = r.chars(); cs.next().map_or(false, name_start) && cs.all(name_cont) });
                if !ok { bad = Some("name shape".into()); }
            }
            _ if is_kwm(ty) => {
                if matches!(ty, T::KwmStr | T::KwmNrStr) { expect_ch = Ch::HIDDEN; }
                let ok = up.strip_prefix('%').map_or(false, |k| keywords_of(ty).iter().any(|w| w == k));
                if !ok { bad = Some("macro keyword text".into()); }
            }
            _ if is_kw(ty) => {
                if !keywords_of(ty).iter().any(|w| *w == up) { bad = Some("keyword text".into()); }
            }
            _ => {
                // a token type the shape table does not know (added after this table was written):
                // the table promises nothing about it, so there is nothing to check
            }
        }
        if let Some(m) = bad {
            v.push(Violation::new("C06", "shape", format!("shape:{:?}:{}", ty, m), format!("token {i} {:?} text {:?}: {m}", ty, raw)));
        } else if t.ch != expect_ch {
            v.push(Violation::new("C06", "channel", format!("channel:{:?}:{:?}", ty, t.ch), format!("token {i} {:?} text {:?} on channel {:?}, expected {:?}", ty, raw, t.ch, expect_ch)));
        }
        let pk_ok = match t.pl {
            Pl::None => true,
            Pl::Int(_) => matches!(ty, T::IntegerLiteral | T::MacroVarResolve),
            Pl::Float(_) => matches!(ty, T::FloatLiteral | T::FloatExponentLiteral),
            Pl::Str(..) => is_quoted_lit(ty) || matches!(ty, T::StringExprText | T::MacroString) || (ty == T::StringExprEnd && cx.has_err_on(i, EK::UnterminatedStringLiteral)),
        };
        if !pk_ok {
            v.push(Violation::new("C06", "payload-kind", format!("payload-kind:{:?}", ty), format!("token {i} {:?} carries payload {:?}", ty, t.pl)));
        }
        // numeric tokens always carry their kind of payload
        if (ty == T::IntegerLiteral && !matches!(t.pl, Pl::Int(_))) || (matches!(ty, T::FloatLiteral | T::FloatExponentLiteral) && !matches!(t.pl, Pl::Float(_))) || (ty == T::MacroVarResolve && !matches!(t.pl, Pl::Int(_))) {
            v.push(Violation::new("C06", "payload-kind", format!("payload-missing:{:?}", ty), format!("token {i} {:?} carries payload {:?}", ty, t.pl)));
        }
    }
    // hidden-channel structure
    let mut open = 0i32;
    for (i, t) in d.toks.iter().enumerate() {
        if t.ch != Ch::HIDDEN { continue; }
        let prev_sig = |d: &Dump| -> Option<T> {
            let mut j = i;
            while j > 0 {
                j -= 1;
                let tj = &d.toks[j];
                if tj.t == T::WS || tj.ch == Ch::COMMENT { continue; }
                return Some(tj.t);
            }
            None
        };
        match t.t {
            T::LPAREN => {
                if !matches!(prev_sig(d), Some(T::KwmStr | T::KwmNrStr)) { v.push(Violation::simple("C06", "hidden-paren", format!("token {i}: hidden LPAREN not after %str/%nrstr"))); }
                open += 1;
            }
            T::RPAREN => {
                if open == 0 { v.push(Violation::simple("C06", "hidden-paren", format!("token {i}: hidden RPAREN without an open hidden LPAREN"))); } else { open -= 1; }
            }
            T::COLON => {
                if prev_sig(d) != Some(T::MacroLabel) { v.push(Violation::simple("C06", "hidden-colon", format!("token {i}: hidden COLON not after a macro label"))); }
            }
            _ => {}
        }
    }
    // comment channel <=> comment types is covered by expect_ch per type above for comment types;
    // the converse (a non-comment type on the comment channel) is covered by the channel check.
}

/// C07: payloads (DESIGN 4.3)
pub fn c07(cx: &Ctx, v: &mut Vec<Violation>) {
    let d = cx.d;
    let buf = &d.lit;
    // 1. partition
    let mut p = 0u32;
    let mut ok = true;
    for t in &d.toks {
        if let Pl::Str(a, e) = t.pl {
            if a != p || e < a || e as usize > buf.len() || !buf.is_char_boundary(a as usize) || !buf.is_char_boundary(e as usize) { ok = false; }
            p = e;
        }
    }
    if p as usize != buf.len() { ok = false; }
    if !ok {
        v.push(Violation::simple("C07", "partition", format!("string payload ranges do not partition the literal buffer (len {}): {:?}", buf.len(), d.toks.iter().filter_map(|t| if let Pl::Str(a, b) = t.pl { Some((a, b)) } else { None }).collect::<Vec<_>>())));
        return;
    }
    for (i, t) in d.toks.iter().enumerate() {
        let raw = cx.raw(t);
        let ty = t.t;
        if is_quoted_lit(ty) {
            let q = match raw.chars().next() { Some(c @ ('\'' | '"')) => c, _ => continue };
            let unt = cx.has_err_on(i, EK::UnterminatedStringLiteral);
            let suf = lit_suffix(ty).len();
            if !unt && raw.len() < 2 + suf { continue; }
            let content = if unt { &raw[1..] } else { &raw[1..raw.len() - 1 - suf] };
            let qq: String = [q, q].iter().collect();
            if ty == T::HexStringLiteral {
                let flagged = cx.has_err_on(i, EK::InvalidHexStringConstant);
                match (hex_decode(content), flagged) {
                    (Some(dec), false) => {
                        if cx.pay(t) != Some(dec.as_str()) { v.push(Violation::new("C07", "hex", "hex:payload-wrong", format!("token {i} {raw:?}: payload {:?} expected {:?}", cx.pay(t), dec))); }
                    }
                    (None, false) => {
                        let signed = content.chars().filter(|&c| c != ',').collect::<Vec<_>>().chunks(2).any(|p| p.len() == 2 && (p[0] == '+' || p[0] == '-') && p[1].is_ascii_hexdigit());
                        let sig = if signed && content.chars().all(|c| c == ',' || c == '+' || c.is_ascii_hexdigit()) { "hex:sign-accepted-as-digit" } else { "hex:decoded-though-not-hex-pairs" };
                        v.push(Violation::new("C07", "hex", sig, format!("token {i} {raw:?}: body is not hex digit pairs but no InvalidHexStringConstant was reported; payload {:?}", cx.pay(t))));
                    }
                    (Some(_), true) => v.push(Violation::new("C07", "hex", "hex:valid-flagged-invalid", format!("token {i} {raw:?}: valid hex pairs flagged InvalidHexStringConstant"))),
                    (None, true) => {}
                }
                continue;
            }
            let expected = content.replace(&qq, &q.to_string());
            if content.contains(&qq) {
                if cx.pay(t) != Some(expected.as_str()) { v.push(Violation::new("C07", "quoted", format!("quoted:wrong:{:?}", ty), format!("token {i} {raw:?}: payload {:?} expected {:?}", cx.pay(t), expected))); }
            } else if cx.pay(t).is_some() {
                v.push(Violation::new("C07", "quoted", format!("quoted:unneeded:{:?}", ty), format!("token {i} {raw:?}: payload {:?} although nothing is quoted", cx.pay(t))));
            }
        } else if ty == T::StringExprText || (ty == T::StringExprEnd && cx.has_err_on(i, EK::UnterminatedStringLiteral)) {
            let expected = raw.replace("\"\"", "\"");
            if raw.contains("\"\"") {
                if cx.pay(t) != Some(expected.as_str()) {
                    let suffix = cx.pay(t).map_or(false, |p| expected.ends_with(p) && p.len() < expected.len());
                    let sig = if suffix { format!("strexpr:payload-is-proper-suffix:{:?}", ty) } else if cx.pay(t).is_none() { format!("strexpr:payload-missing:{:?}", ty) } else { format!("strexpr:wrong:{:?}", ty) };
                    v.push(Violation::new("C07", "strexpr", sig, format!("token {i} {raw:?}: payload {:?} expected {:?}", cx.pay(t), expected)));
                }
            } else if cx.pay(t).is_some() {
                v.push(Violation::new("C07", "strexpr", format!("strexpr:unneeded:{:?}", ty), format!("token {i} {raw:?}: payload {:?} although nothing is quoted", cx.pay(t))));
            }
        } else if ty == T::StringExprEnd {
            if cx.pay(t).is_some() { v.push(Violation::simple("C07", "strexpr-end-payload", format!("token {i}: terminated StringExprEnd with payload"))); }
        } else if ty == T::MacroString {
            let (exp, had) = unq_pct(raw);
            if let Some(p) = cx.pay(t) {
                if p != exp {
                    let suffix = exp.ends_with(p) && p.len() < exp.len();
                    let sig = if suffix { "macrostring:payload-is-proper-suffix" } else { "macrostring:wrong" };
                    v.push(Violation::new("C07", "macrostring", sig, format!("token {i} {raw:?}: payload {:?} expected {:?}", p, exp)));
                }
            } else if had {
                // directly after the hidden '(' of %str/%nrstr the text is certainly %str text
                let in_str = str_call_depth_at(d, i) > 0;
                if in_str { v.push(Violation::new("C07", "macrostring", "macrostring:payload-missing-in-str-call", format!("token {i} {raw:?}: %-quote inside %str/%nrstr text but no payload"))); }
            }
        }
    }
}

/// Is token i certainly %str/%nrstr text? True when a hidden '(' of %str/%nrstr is open before
/// token i and no macro call or macro statement token occurred since it was opened (those push
/// their own lexer modes, in which %-quotes are documented not to be handled). Returns the
/// nesting depth (0 = not certainly %str text).
pub fn str_call_depth_at(d: &Dump, i: usize) -> i32 {
    let mut open = 0i32;
    let mut pure = true;
    for t in &d.toks[..i] {
        if t.ch == Ch::HIDDEN && t.t == T::LPAREN && !t.empty() {
            open += 1;
            if open == 1 { pure = true; }
        } else if t.ch == Ch::HIDDEN && t.t == T::RPAREN && open > 0 {
            open -= 1;
        } else if open > 0 && (t.t == T::MacroIdentifier || (is_kwm(t.t) && !matches!(t.t, T::KwmStr | T::KwmNrStr))) {
            pure = false;
        }
    }
    if pure { open } else { 0 }
}

/// C08: numeric payloads (DESIGN 4.4)
pub fn c08(cx: &Ctx, v: &mut Vec<Violation>, classes: &mut Vec<&'static str>) {
    let d = cx.d;
    for (i, t) in d.toks.iter().enumerate() {
        if !is_numeric(t.t) { continue; }
        let raw = cx.raw(t);
        let bs = raw.as_bytes();
        let e_inv = cx.has_err_on(i, EK::InvalidNumericLiteral);
        let e_unt = cx.has_err_on(i, EK::UnterminatedHexNumericLiteral);
        if e_inv || e_unt {
            classes.push("malformed");
            // the token spans exactly the malformed literal: maximality on both sides
            let after = cx.src[t.e as usize..].chars().next();
            // (which of the two error kinds names the fault is not part of the property: "an invalid-literal or
            // missing-x error" - a hex run without its x may carry either or both; C11 fixes the kinds for open code)
            let shape_ok = {
                let hex_no_x = hexrun(bs) && !matches!(after, Some(c) if c.is_ascii_hexdigit() || c == 'x' || c == 'X');
                let empty_exp = exp_split(bs).map_or(false, |(m, ex)| mantissa(m) && (ex.is_empty() || ex == b"+" || ex == b"-")) && !matches!(after, Some(c) if c.is_ascii_digit());
                let hx_overflow = hexrun_x(bs) && u64::from_str_radix(&raw[..raw.len() - 1], 16).is_err();
                hex_no_x || empty_exp || hx_overflow
            };
            if !shape_ok {
                let core = bs.strip_suffix(b"x").or_else(|| bs.strip_suffix(b"X")).unwrap_or(bs);
                let f10 = e_inv && core.iter().position(|&b| b == b'.').map_or(false, |p| { let (a, b2) = (&core[..p], &core[p + 1..]); hexrun(a) && b2.iter().all(|b| b.is_ascii_hexdigit()) && u64::from_str_radix(std::str::from_utf8(a).unwrap(), 16).is_err() });
                let sig = if f10 { "malformed-span:overflowing-hex-with-fraction".to_string() } else { "malformed-span".to_string() };
                v.push(Violation::new("C08", "malformed-span", sig, format!("token {i} {:?} {raw:?} (invalid={e_inv} missing-x={e_unt}) does not span exactly a malformed literal; next char {after:?}", t.t)));
            }
            continue;
        }
        let is_hex = raw.ends_with(['x', 'X']);
        let all_digits = digits(bs);
        let has_exp = !is_hex && raw.contains(['e', 'E']);
        let class: &'static str = if is_hex { "hex" } else if all_digits { if raw.parse::<u64>().is_ok() { "int" } else { "int-overflow" } } else if has_exp { "exp" } else { "frac" };
        classes.push(class);
        let mut bad: Option<String> = None;
        match (class, t.pl, t.t) {
            ("hex", Pl::Int(x), T::IntegerLiteral) => { if u64::from_str_radix(&raw[..raw.len() - 1], 16) != Ok(x) { bad = Some(format!("hex value {x}")); } }
            ("int", Pl::Int(x), T::IntegerLiteral) => { if raw.parse::<u64>() != Ok(x) { bad = Some(format!("integer value {x}")); } }
            ("int-overflow", Pl::Float(f), T::FloatLiteral) | ("frac", Pl::Float(f), T::FloatLiteral) | ("exp", Pl::Float(f), T::FloatExponentLiteral) => {
                match raw.parse::<f64>() {
                    Ok(w) if w.to_bits() == f => {}
                    other => bad = Some(format!("float value {:e} (bits {f:016x}), std parse gives {other:?}", f64::from_bits(f))),
                }
            }
            (c, p, ty) => bad = Some(format!("type/notation mismatch: notation {c}, payload {p:?}, type {ty:?}")),
        }
        if let Some(m) = bad {
            let rule = if m.starts_with("type/") { "type" } else { "value" };
            v.push(Violation::new("C08", rule, format!("{rule}:{class}"), format!("token {i} {raw:?}: {m}")));
        }
    }
}

/// C09: errors anchored in the token stream
pub fn c09(cx: &Ctx, v: &mut Vec<Violation>) {
    let (src, d, pos) = (cx.src, cx.d, cx.pos);
    let n = d.toks.len();
    let len = src.len();
    let mut prev = 0u32;
    let expected_tok = |k: EK| match k {
        EK::MissingExpectedRParen => Some(T::RPAREN),
        EK::MissingExpectedAssign => Some(T::ASSIGN),
        EK::MissingExpectedLParen => Some(T::LPAREN),
        EK::MissingExpectedComma => Some(T::COMMA),
        EK::MissingExpectedFSlash => Some(T::FSLASH),
        EK::MissingExpectedSemiOrEOF => Some(T::SEMI),
        _ => None,
    };
    for (ei, e) in d.errs.iter().enumerate() {
        let off = e.b as usize;
        if !pos.is_boundary(off) {
            v.push(Violation::new("C09", "offset", format!("offset:{:?}", e.k), format!("error {ei} {:?} at byte {off}: outside the source or not on a char boundary (len {len})", e.k)));
            continue;
        }
        if e.b < prev {
            v.push(Violation::new("C09", "order", format!("order:{:?}", e.k), format!("error {ei} {:?} at byte {off} is listed after an error at byte {prev}", e.k)));
        }
        prev = e.b;
        if let Some(li) = e.last {
            if li as usize >= n {
                v.push(Violation::new("C09", "last-token", format!("last-token-oob:{:?}", e.k), format!("error {ei} {:?}: last_token {li} but only {n} tokens", e.k)));
            } else if d.toks[li as usize].b > e.b {
                v.push(Violation::new("C09", "last-token", format!("last-token-after-error:{:?}", e.k), format!("error {ei} {:?} at byte {off}: last_token {li} starts at {}", e.k, d.toks[li as usize].b)));
            }
        }
    }
    // 'missing expected' errors and zero-width recovery tokens coincide per symbol and offset. (Not one to one: the
    // lexer inserts a ')' for every parenthesis open at end of input but reports only the calls' own - '%a(((' has
    // three recovery tokens and one error; C14 bounds the number of errors by the calls still open.)
    use std::collections::BTreeMap;
    let mut zw: BTreeMap<(u32, T), (u32, usize)> = BTreeMap::new();
    for (i, t) in d.toks.iter().enumerate() {
        if t.empty() && matches!(t.t, T::RPAREN | T::ASSIGN | T::LPAREN | T::COMMA | T::FSLASH | T::SEMI) {
            let e = zw.entry((t.b, t.t)).or_insert((0, i));
            e.0 += 1;
        }
    }
    let mut er: BTreeMap<(u32, T), (u32, usize, EK)> = BTreeMap::new();
    for (ei, e) in d.errs.iter().enumerate() {
        if let Some(w) = expected_tok(e.k) {
            let x = er.entry((e.b, w)).or_insert((0, ei, e.k));
            x.0 += 1;
        }
    }
    for (&(off, w), &(cnt, ei, k)) in er.iter() {
        let have = zw.get(&(off, w)).map_or(0, |x| x.0);
        if have == 0 {
            v.push(Violation::new("C09", "missing-without-token", format!("missing-without-token:{:?}", k), format!("error {ei} {:?} at byte {off} has no zero-width {:?} token there", k, w)));
        }
        let _ = cnt;
    }
    for (&(off, w), &(cnt, i)) in zw.iter() {
        // end-of-input semicolons (one per statement still open there) are inserted without an error
        let free = if w == T::SEMI && off as usize == len { cnt } else { 0 };
        let have = er.get(&(off, w)).map_or(0, |x| x.0);
        let wantk = match w {
            T::RPAREN => EK::MissingExpectedRParen,
            T::ASSIGN => EK::MissingExpectedAssign,
            T::LPAREN => EK::MissingExpectedLParen,
            T::COMMA => EK::MissingExpectedComma,
            T::FSLASH => EK::MissingExpectedFSlash,
            _ => EK::MissingExpectedSemiOrEOF,
        };
        if have == 0 && cnt > free {
            v.push(Violation::new("C09", "token-without-missing", format!("token-without-missing:{:?}", w), format!("zero-width token {i} {:?} at byte {off} has no {:?} error there", w, wantk)));
        }
    }
}

/// C10: bracket automaton (DESIGN 4.7)
pub fn c10(cx: &Ctx, v: &mut Vec<Violation>) {
    let d = cx.d;
    let n = d.toks.len();
    let mut depth = 0i32;
    let skip_hidden = |mut j: usize| {
        while j < n && (d.toks[j].t == T::WS || d.toks[j].ch == Ch::COMMENT) { j += 1; }
        j
    };
    for (i, t) in d.toks.iter().enumerate() {
        match t.t {
            T::StringExprStart => depth += 1,
            x if is_expr_end(x) => {
                depth -= 1;
                if depth < 0 { v.push(Violation::simple("C10", "strexpr-end-without-start", format!("token {i} {:?}", t.t))); depth = 0; }
            }
            T::StringExprText => { if depth == 0 { v.push(Violation::simple("C10", "strexpr-text-outside", format!("token {i}"))); } }
            T::DatalinesStart => {
                if !(i + 2 < n && d.toks[i + 1].t == T::DatalinesData && d.toks[i + 2].t == T::SEMI) { v.push(Violation::simple("C10", "datalines-triple", format!("token {i}: DatalinesStart not followed by DatalinesData and SEMI"))); }
            }
            T::DatalinesData => {
                if !(i >= 1 && d.toks[i - 1].t == T::DatalinesStart) { v.push(Violation::simple("C10", "datalines-data-without-start", format!("token {i}"))); }
            }
            T::MacroLabel => {
                let j = skip_hidden(i + 1);
                if !(j < n && d.toks[j].t == T::COLON && d.toks[j].ch == Ch::HIDDEN) { v.push(Violation::simple("C10", "label-colon", format!("token {i}: macro label not followed by its hidden colon"))); }
            }
            _ => {}
        }
        if is_builtin_with_args(t.t) {
            let j = skip_hidden(i + 1);
            if !(j < n && d.toks[j].t == T::LPAREN && d.toks[j].ch == t.ch) {
                v.push(Violation::new("C10", "builtin-lparen", "builtin-lparen", format!("token {i} {:?} is not followed by '(' on channel {:?} (next significant: {:?})", t.t, t.ch, d.toks.get(j).map(|x| (x.t, x.ch)))));
            }
        }
    }
    if depth != 0 { v.push(Violation::simple("C10", "strexpr-unclosed", format!("{depth} string expression(s) still open at EOF"))); }
}

/// output part of C01: no internal errors, output linear in the input
pub fn c01_output(cx: &Ctx, v: &mut Vec<Violation>) {
    let d = cx.d;
    let len = cx.src.len();
    for e in &d.errs {
        if (9000..10000).contains(&e.code) {
            v.push(Violation::new("C01", "internal-error", format!("internal-error:{:?}", e.k), format!("internal error {:?} ({}) at byte {}", e.k, e.code, e.b)));
            break;
        }
    }
    if d.toks.len() > 16 + 4 * len { v.push(Violation::simple("C01", "tokens-linear", format!("{} tokens for {len} bytes", d.toks.len()))); }
    if d.errs.len() > 16 + 4 * len { v.push(Violation::simple("C01", "errors-linear", format!("{} errors for {len} bytes", d.errs.len()))); }
}

/// run every input-universal oracle
pub fn all(src: &str, d: &Dump, numeric_classes: &mut Vec<&'static str>) -> Vec<Violation> {
    let pos = Pos::new(src);
    let cx = Ctx { src, d, pos: &pos };
    let mut v = vec![];
    c01_output(&cx, &mut v);
    if !c02(&cx, &mut v) {
        return v;
    }
    c03(&cx, &mut v);
    c04(&cx, &mut v);
    c05(&cx, &mut v);
    c06(&cx, &mut v);
    c07(&cx, &mut v);
    c08(&cx, &mut v, numeric_classes);
    c09(&cx, &mut v);
    c10(&cx, &mut v);
    v
}
