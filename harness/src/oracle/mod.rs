pub mod pos;
pub mod universal;
pub mod kw;
pub mod reflex;
