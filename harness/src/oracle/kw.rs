//! Keyword spellings derived from the *names* of the token type variants (plus the five
//! documented exceptions), independent of the lexer's generated hash maps.
use crate::api::{all_token_types, tname, T};
use std::collections::BTreeMap;
use std::sync::OnceLock;

pub fn keywords_of(t: T) -> Vec<String> {
    let n = tname(t);
    if let Some(rest) = n.strip_prefix("Kwm") {
        if t == T::KwmInclude {
            return vec!["INCLUDE".into(), "INC".into()];
        }
        return vec![rest.to_ascii_uppercase()];
    }
    if let Some(rest) = n.strip_prefix("Kw") {
        return match t {
            T::KwAllVar => vec!["_ALL_".into()],
            T::KwNullDataset => vec!["_NULL_".into()],
            T::KwCorr => vec!["CORR".into(), "CORRESPONDING".into()],
            T::KwExecute => vec!["EXEC".into(), "EXECUTE".into()],
            _ => vec![rest.to_ascii_uppercase()],
        };
    }
    vec![]
}
pub fn is_kwm(t: T) -> bool {
    tname(t).starts_with("Kwm")
}
pub fn is_kw(t: T) -> bool {
    let n = tname(t);
    n.starts_with("Kw") && !n.starts_with("Kwm")
}
/// upper-cased open-code keyword -> type
pub fn kw_table() -> &'static BTreeMap<String, T> {
    static M: OnceLock<BTreeMap<String, T>> = OnceLock::new();
    M.get_or_init(|| {
        let mut m = BTreeMap::new();
        for &t in all_token_types() {
            if is_kw(t) {
                for k in keywords_of(t) {
                    m.insert(k, t);
                }
            }
        }
        m
    })
}
/// upper-cased macro keyword (without %) -> type
pub fn kwm_table() -> &'static BTreeMap<String, T> {
    static M: OnceLock<BTreeMap<String, T>> = OnceLock::new();
    M.get_or_init(|| {
        let mut m = BTreeMap::new();
        for &t in all_token_types() {
            if is_kwm(t) {
                for k in keywords_of(t) {
                    m.insert(k, t);
                }
            }
        }
        m
    })
}
/// per type flags, indexed by discriminant: 1 = Kw, 2 = Kwm
pub fn kind_flags() -> &'static Vec<u8> {
    static M: OnceLock<Vec<u8>> = OnceLock::new();
    M.get_or_init(|| all_token_types().iter().map(|&t| if is_kwm(t) { 2 } else if is_kw(t) { 1 } else { 0 }).collect())
}
pub fn is_macro_stat_kw(t: T) -> bool {
    (t as u16) >= (T::KwmAbort as u16) && (t as u16) <= (T::KwmRun as u16)
}
/// built-in macro functions that take arguments
pub fn is_builtin_with_args(t: T) -> bool {
    (t as u16) >= (T::KwmCmpres as u16) && (t as u16) <= (T::KwmNrStr as u16) && t != T::KwmSysmexecdepth
}
