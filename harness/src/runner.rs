//! Engine E1: sweeps + seeded proptest runs + replay tier, evidence and verdict.
use crate::core::{trunc, Case, Verdict, Violation};
use crate::kf::Known;
use crate::props::{Property, Tier};
use crate::su::{hash_str, mix2, tag, Src};
use proptest::collection::vec as pvec;
use proptest::prelude::any;
use proptest::test_runner::{Config, RngAlgorithm, RngSeed, TestCaseError, TestError, TestRunner};
use serde_json::{json, Value};
use std::collections::{BTreeMap, HashSet};
use std::path::PathBuf;
use std::sync::atomic::{AtomicBool, AtomicUsize, Ordering};
use std::sync::Mutex;
use std::time::Instant;

pub const NSHARDS: usize = 16;
const SAMPLES: usize = 8;

#[derive(Default)]
pub struct Stats {
    pub evaluations: u64,
    pub discards: BTreeMap<String, u64>,
    pub labels: BTreeMap<String, u64>,
    pub nontrivial: HashSet<u64>,
    pub nontrivial_cases: u64,
    /// deterministic sample choice: the non-trivial keys with the smallest hashes
    pub samples: BTreeMap<u64, String>,
    pub maxima: BTreeMap<&'static str, f64>,
    pub kf_hits: BTreeMap<usize, (u64, String)>,
    pub other_prop_violations: u64,
}
impl Stats {
    fn add(&mut self, vd: &Verdict) {
        self.evaluations += 1;
        if let Some(why) = vd.discard {
            *self.discards.entry(why.to_string()).or_default() += 1;
            return;
        }
        for l in &vd.labels {
            *self.labels.entry(l.clone()).or_default() += 1;
        }
        for (k, v) in &vd.maxima {
            let e = self.maxima.entry(k).or_insert(*v);
            if *v > *e {
                *e = *v;
            }
        }
        if vd.nontrivial {
            self.nontrivial_cases += 1;
            let h = hash_str(&vd.key);
            if self.nontrivial.insert(h) {
                if self.samples.len() < SAMPLES || self.samples.keys().next_back().map_or(false, |m| h < *m) {
                    self.samples.insert(h, trunc(&vd.key, 200));
                    if self.samples.len() > SAMPLES {
                        let last = *self.samples.keys().next_back().unwrap();
                        self.samples.remove(&last);
                    }
                }
            }
        }
    }
    fn merge(&mut self, o: Stats) {
        self.evaluations += o.evaluations;
        self.nontrivial_cases += o.nontrivial_cases;
        self.other_prop_violations += o.other_prop_violations;
        for (k, v) in o.discards {
            *self.discards.entry(k).or_default() += v;
        }
        for (k, v) in o.labels {
            *self.labels.entry(k).or_default() += v;
        }
        for (k, v) in o.maxima {
            let e = self.maxima.entry(k).or_insert(v);
            if v > *e {
                *e = v;
            }
        }
        self.nontrivial.extend(o.nontrivial);
        for (h, s) in o.samples {
            self.samples.insert(h, s);
        }
        while self.samples.len() > SAMPLES {
            let last = *self.samples.keys().next_back().unwrap();
            self.samples.remove(&last);
        }
        for (i, (n, s)) in o.kf_hits {
            let e = self.kf_hits.entry(i).or_insert((0, s));
            e.0 += n;
        }
    }
}

#[derive(Debug, Clone)]
pub struct Failure {
    pub case: Case,
    pub violation: Violation,
    pub found_by: String,
}

/// classify the violations of one verdict: unknown ones of this property are failures
fn triage(prop: &dyn Property, kf: &Known, vd: &Verdict, st: &mut Stats) -> Option<Violation> {
    let mut first: Option<Violation> = None;
    for v in &vd.violations {
        if v.prop != prop.id() {
            st.other_prop_violations += 1;
            continue;
        }
        match kf.matches(v) {
            Some(i) => {
                let e = st.kf_hits.entry(i).or_insert((0, trunc(&vd.key, 160)));
                e.0 += 1;
            }
            None => {
                if first.is_none() {
                    first = Some(v.clone());
                }
            }
        }
    }
    first
}

pub fn case_to_json(c: &Case) -> Value {
    json!({
        "kind": c.kind,
        "texts": c.texts,
        "bytes_hex": c.bytes.iter().map(|b| format!("{b:02x}")).collect::<String>(),
        "n": c.n,
        "gen": c.gen,
    })
}
pub fn case_from_json(v: &Value) -> Option<Case> {
    let kind = v.get("kind")?.as_str()?.to_string();
    let texts = v.get("texts")?.as_array()?.iter().filter_map(|x| x.as_str().map(|s| s.to_string())).collect();
    let hx = v.get("bytes_hex").and_then(|x| x.as_str()).unwrap_or("");
    let bytes = (0..hx.len() / 2).filter_map(|i| u8::from_str_radix(&hx[2 * i..2 * i + 2], 16).ok()).collect();
    let n = v.get("n").and_then(|x| x.as_u64()).unwrap_or(0);
    Some(Case { kind, texts, bytes, n, gen: "replay" })
}

/// does this case still fail for the same rule (and not only through known findings)?
fn still_fails(prop: &dyn Property, kf: &Known, case: &Case, rule: &str) -> Option<Violation> {
    let vd = prop.check(case);
    vd.violations.into_iter().find(|v| v.prop == prop.id() && v.rule == rule && kf.matches(v).is_none())
}

/// rule-preserving delta debugging on the texts / bytes of a case
pub fn shrink(prop: &dyn Property, kf: &Known, case: &Case, rule: &str) -> Case {
    let mut best = case.clone();
    let mut budget = 1500usize;
    let big = best.texts.iter().map(|t| t.len()).sum::<usize>() > 200_000;
    if big {
        budget = 60;
    }
    // batch: drop whole texts first
    if best.kind == "batch" {
        let mut i = 0;
        while i < best.texts.len() && budget > 0 && best.texts.len() > 1 {
            let mut c = best.clone();
            c.texts.remove(i);
            budget -= 1;
            if still_fails(prop, kf, &c, rule).is_some() {
                best = c;
            } else {
                i += 1;
            }
        }
        return best;
    }
    for ti in 0..best.texts.len() {
        let mut chunk = (best.texts[ti].chars().count() / 2).max(1);
        loop {
            let mut progressed = false;
            let chars: Vec<char> = best.texts[ti].chars().collect();
            let mut start = 0;
            while start < chars.len() && budget > 0 {
                let end = (start + chunk).min(chars.len());
                let cand: String = chars[..start].iter().chain(chars[end..].iter()).collect();
                let mut c = best.clone();
                c.texts[ti] = cand;
                // C16 pairs must keep equal lengths: delete the same range from the partner
                if prop.id() == "C16" && best.texts.len() == 2 {
                    let other = 1 - ti;
                    let oc: Vec<char> = best.texts[other].chars().collect();
                    if oc.len() == chars.len() {
                        c.texts[other] = oc[..start].iter().chain(oc[end..].iter()).collect();
                    }
                }
                budget -= 1;
                if still_fails(prop, kf, &c, rule).is_some() {
                    best = c;
                    progressed = true;
                    break;
                }
                start += chunk;
            }
            if budget == 0 {
                break;
            }
            if !progressed {
                if chunk == 1 {
                    break;
                }
                chunk = (chunk / 2).max(1);
            }
        }
    }
    if !best.bytes.is_empty() {
        let mut chunk = (best.bytes.len() / 2).max(1);
        loop {
            let mut progressed = false;
            let mut start = 0;
            while start < best.bytes.len() && budget > 0 {
                let end = (start + chunk).min(best.bytes.len());
                let mut c = best.clone();
                c.bytes.drain(start..end);
                budget -= 1;
                if still_fails(prop, kf, &c, rule).is_some() {
                    best = c;
                    progressed = true;
                    break;
                }
                start += chunk;
            }
            if budget == 0 {
                break;
            }
            if !progressed {
                if chunk == 1 {
                    break;
                }
                chunk = (chunk / 2).max(1);
            }
        }
        // lower single bytes towards zero (simpler choices)
        for i in 0..best.bytes.len() {
            if budget == 0 {
                break;
            }
            if best.bytes[i] != 0 {
                let mut c = best.clone();
                c.bytes[i] = 0;
                budget -= 1;
                if still_fails(prop, kf, &c, rule).is_some() {
                    best = c;
                }
            }
        }
    }
    best
}

pub struct RunCfg {
    pub tier: Tier,
    pub seed: u64,
    pub root: PathBuf,
    pub cases_override: Option<u64>,
    pub skip_sweeps: bool,
}

pub struct Outcome {
    pub failures: Vec<(Failure, PathBuf)>,
    pub stats: Stats,
    pub sweeps: Vec<Value>,
    pub wall_s: f64,
    pub replayed: u64,
    pub random_cases: u64,
}

fn write_replay(root: &PathBuf, prop: &dyn Property, f: &Failure, seed: u64) -> PathBuf {
    let dir = root.join("replays").join("found");
    let _ = std::fs::create_dir_all(&dir);
    let h = hash_str(&format!("{}|{}|{:?}", f.violation.sig, prop.id(), f.case));
    let p = dir.join(format!("{}-{:016x}.json", prop.id(), h));
    let v = json!({
        "property": prop.id(),
        "rule": f.violation.rule,
        "signature": f.violation.sig,
        "message": f.violation.msg,
        "found_by": f.found_by,
        "seed": seed,
        "case": case_to_json(&f.case),
    });
    let _ = std::fs::write(&p, serde_json::to_string_pretty(&v).unwrap());
    p
}

pub fn load_replay(path: &std::path::Path) -> Option<(String, Case)> {
    let txt = std::fs::read_to_string(path).ok()?;
    let v: Value = serde_json::from_str(&txt).ok()?;
    let prop = v.get("property")?.as_str()?.to_string();
    let case = case_from_json(v.get("case")?)?;
    Some((prop, case))
}

pub fn run(prop: &dyn Property, kf: &Known, cfg: &RunCfg) -> Outcome {
    let t0 = Instant::now();
    let mut stats = Stats::default();
    let mut failures: Vec<Failure> = vec![];
    let threads = std::thread::available_parallelism().map(|n| n.get()).unwrap_or(8).min(32);

    // ---- tier 0: committed replays of this property (seconds-long regression tier)
    let mut replayed = 0u64;
    let rdir = cfg.root.join("replays").join(prop.id());
    let mut files: Vec<PathBuf> = std::fs::read_dir(&rdir).map(|rd| rd.filter_map(|e| e.ok()).map(|e| e.path()).filter(|p| p.extension().map_or(false, |x| x == "json")).collect()).unwrap_or_default();
    files.sort();
    for p in files {
        if let Some((pid, case)) = load_replay(&p) {
            if pid != prop.id() {
                continue;
            }
            replayed += 1;
            let vd = prop.check(&case);
            let fail = triage(prop, kf, &vd, &mut stats);
            stats.add(&vd);
            if let Some(v) = fail {
                failures.push(Failure { case, violation: v, found_by: format!("replay of {}", p.display()) });
            }
        }
    }

    // ---- tier 1: sweeps (bounded-exhaustive and systematic families)
    let mut sweep_info = vec![];
    if !cfg.skip_sweeps {
        for sw in prop.sweeps(cfg.tier, cfg.seed) {
            let ts = Instant::now();
            let next = AtomicUsize::new(0);
            let nchunks = sw.chunks();
            let found: Mutex<BTreeMap<String, Failure>> = Mutex::new(BTreeMap::new());
            let merged: Mutex<Stats> = Mutex::new(Stats::default());
            std::thread::scope(|sc| {
                for _ in 0..threads.min(nchunks.max(1)) {
                    sc.spawn(|| {
                        let mut st = Stats::default();
                        loop {
                            let c = next.fetch_add(1, Ordering::SeqCst);
                            if c >= nchunks {
                                break;
                            }
                            sw.run_chunk(c, &mut |case: Case| {
                                let vd = prop.check(&case);
                                let fail = triage(prop, kf, &vd, &mut st);
                                st.add(&vd);
                                if let Some(v) = fail {
                                    let mut g = found.lock().unwrap();
                                    if g.len() < 64 {
                                        let better = g.get(&v.sig).map_or(true, |old| case_size(&case) < case_size(&old.case));
                                        if better {
                                            g.insert(v.sig.clone(), Failure { case, violation: v, found_by: format!("sweep: {}", sw.name()) });
                                        }
                                    }
                                }
                            });
                        }
                        merged.lock().unwrap().merge(st);
                    });
                }
            });
            let st = merged.into_inner().unwrap();
            sweep_info.push(json!({"sweep": sw.name(), "evaluations": st.evaluations, "exhaustive": sw.exhaustive(), "wall_s": ts.elapsed().as_secs_f64()}));
            stats.merge(st);
            let found = found.into_inner().unwrap();
            // keep a few distinct signatures
            for (_, f) in found.into_iter().take(4) {
                failures.push(f);
            }
        }
    }

    // ---- tier 2: seeded proptest over the choice stream, NSHARDS independent runners
    let total = cfg.cases_override.unwrap_or_else(|| prop.cases(cfg.tier));
    let per = total.div_ceil(NSHARDS as u64);
    let merged: Mutex<Stats> = Mutex::new(Stats::default());
    let found: Mutex<Vec<Failure>> = Mutex::new(vec![]);
    let next = AtomicUsize::new(0);
    if total > 0 {
        std::thread::scope(|sc| {
            for _ in 0..threads.min(NSHARDS) {
                sc.spawn(|| loop {
                    let shard = next.fetch_add(1, Ordering::SeqCst);
                    if shard >= NSHARDS {
                        break;
                    }
                    let seed = mix2(mix2(cfg.seed, tag(prop.id())), shard as u64);
                    let mut seed_bytes = [0u8; 32];
                    for (i, b) in seed_bytes.iter_mut().enumerate() {
                        *b = (mix2(seed, i as u64) & 0xff) as u8;
                    }
                    let config = Config {
                        cases: per as u32,
                        failure_persistence: None,
                        rng_algorithm: RngAlgorithm::ChaCha,
                        rng_seed: RngSeed::Fixed(seed),
                        max_shrink_iters: 4000,
                        max_global_rejects: u32::MAX,
                        max_local_rejects: u32::MAX,
                        ..Config::default()
                    };
                    let _ = seed_bytes;
                    let mut runner = TestRunner::new(config);
                    let strat = pvec(any::<u8>(), 0..prop.stream_len());
                    let st = std::cell::RefCell::new(Stats::default());
                    let failed = AtomicBool::new(false);
                    let first_rule: std::cell::RefCell<Option<String>> = std::cell::RefCell::new(None);
                    let res = runner.run(&strat, |bytes| {
                        let mut s = Src::new(&bytes);
                        let case = prop.generate(&mut s);
                        let vd = prop.check(&case);
                        let counting = !failed.load(Ordering::Relaxed);
                        let mut tmp = Stats::default();
                        let fail = if counting {
                            let mut g = st.borrow_mut();
                            let f = triage(prop, kf, &vd, &mut g);
                            g.add(&vd);
                            f
                        } else {
                            triage(prop, kf, &vd, &mut tmp)
                        };
                        match fail {
                            Some(v) => {
                                // while shrinking, only accept failures of the same rule
                                let mut fr = first_rule.borrow_mut();
                                match &*fr {
                                    None => {
                                        *fr = Some(v.rule.clone());
                                        failed.store(true, Ordering::Relaxed);
                                        Err(TestCaseError::fail(v.sig))
                                    }
                                    Some(r) if *r == v.rule => Err(TestCaseError::fail(v.sig)),
                                    Some(_) => Ok(()),
                                }
                            }
                            None => Ok(()),
                        }
                    });
                    merged.lock().unwrap().merge(st.into_inner());
                    if let Err(TestError::Fail(_, bytes)) = res {
                        let mut s = Src::new(&bytes);
                        let case = prop.generate(&mut s);
                        let vd = prop.check(&case);
                        let rule = first_rule.borrow().clone().unwrap_or_default();
                        if let Some(v) = vd.violations.iter().find(|v| v.prop == prop.id() && v.rule == rule && kf.matches(v).is_none()).cloned() {
                            found.lock().unwrap().push(Failure { case, violation: v, found_by: format!("proptest shard {shard} (seed {seed})") });
                        }
                    }
                });
            }
        });
    }
    stats.merge(merged.into_inner().unwrap());
    failures.extend(found.into_inner().unwrap());

    // ---- shrink and persist (at most a few distinct signatures)
    let mut by_sig: BTreeMap<String, Failure> = BTreeMap::new();
    for f in failures {
        let e = by_sig.entry(f.violation.sig.clone());
        match e {
            std::collections::btree_map::Entry::Vacant(v) => {
                v.insert(f);
            }
            std::collections::btree_map::Entry::Occupied(mut o) => {
                if case_size(&f.case) < case_size(&o.get().case) {
                    o.insert(f);
                }
            }
        }
    }
    let mut out = vec![];
    for (_, f) in by_sig.into_iter().take(6) {
        let is_replay = f.found_by.starts_with("replay of");
        let small = if is_replay { f.case.clone() } else { shrink(prop, kf, &f.case, &f.violation.rule) };
        let v = still_fails(prop, kf, &small, &f.violation.rule).unwrap_or(f.violation.clone());
        let ff = Failure { case: small, violation: v, found_by: f.found_by.clone() };
        let p = write_replay(&cfg.root, prop, &ff, cfg.seed);
        out.push((ff, p));
    }
    Outcome { failures: out, stats, sweeps: sweep_info, wall_s: t0.elapsed().as_secs_f64(), replayed, random_cases: total }
}

fn case_size(c: &Case) -> usize {
    c.texts.iter().map(|t| t.len()).sum::<usize>() + c.bytes.len()
}

pub fn evidence_json(prop: &dyn Property, kf: &Known, cfg: &RunCfg, o: &Outcome, extra: Value) -> Value {
    let st = &o.stats;
    let top_labels: BTreeMap<&String, &u64> = st.labels.iter().collect();
    let kf_hits: Vec<Value> = st.kf_hits.iter().map(|(i, (n, s))| json!({"id": kf.findings[*i].id, "signature": kf.findings[*i].signature, "hits": n, "example": s})).collect();
    let exhaustive_parts: Vec<&Value> = o.sweeps.iter().filter(|s| s["exhaustive"] == json!(true)).collect();
    json!({
        "property_id": prop.id(),
        "tier": if cfg.tier == Tier::Quick { "quick" } else { "thorough" },
        "seed": cfg.seed,
        "level": "exploration",
        "coverage": {
            "evaluations": st.evaluations,
            "distinct_nontrivial": st.nontrivial.len(),
            "nontrivial_cases": st.nontrivial_cases,
            "rule": prop.rule(),
            "samples": st.samples.values().collect::<Vec<_>>(),
            "exhaustive": false,
            "exhaustive_subspaces": exhaustive_parts,
            "sweeps": o.sweeps,
            "random_cases_requested": o.random_cases,
            "proptest_shards": NSHARDS,
            "replayed_regressions": o.replayed,
            "discards": st.discards,
            "labels": top_labels,
            "maxima": st.maxima,
            "known_finding_hits": kf_hits,
            "violations_of_other_properties_seen": st.other_prop_violations,
            "extra": extra,
        },
        "assumptions": prop.assumptions(),
        "wall_s": o.wall_s,
        "violations": o.failures.len(),
    })
}
