//! Engine E1: sweeps + seeded proptest runs + replay tier, evidence and verdict.
use crate::core::{trunc, Case, Verdict, Violation};
use crate::kf::Known;
use crate::props::{Property, Tier};
use crate::su::{hash_str, mix2, tag, Src};
use proptest::collection::vec as pvec;
use proptest::prelude::any;
use proptest::test_runner::{Config, RngAlgorithm, RngSeed, TestCaseError, TestError, TestRunner};
use serde_json::{json, Value};
use std::collections::{BTreeMap, HashSet};
use std::path::PathBuf;
use std::sync::atomic::{AtomicBool, AtomicUsize, Ordering};
use std::sync::Mutex;
use std::time::Instant;

pub const NSHARDS: usize = 16;

// ------------------------------------------------------------------------------------ watchdog
// The hook's iteration budget turns a stuck *main loop* into a verdict, but a scanner that stops
// advancing inside one lexer call never returns. Every worker registers the case it is checking;
// a watchdog thread notices a case that is far beyond any plausible lexing time.
#[derive(Default)]
struct SlotState {
    /// the case being checked and when its check started
    case: Option<(Instant, Case)>,
    /// set while a lexer call (`api::lex`) is running on this thread
    lex_since: Option<Instant>,
}
type Slot = std::sync::Arc<Mutex<SlotState>>;
static SLOTS: Mutex<Vec<Slot>> = Mutex::new(Vec::new());
thread_local! {
    static MY_SLOT: std::cell::RefCell<Option<Slot>> = const { std::cell::RefCell::new(None) };
}
fn my_slot() -> Slot {
    MY_SLOT.with(|c| {
        let mut c = c.borrow_mut();
        if c.is_none() {
            let s: Slot = std::sync::Arc::new(Mutex::new(SlotState::default()));
            SLOTS.lock().unwrap().push(s.clone());
            *c = Some(s);
        }
        c.as_ref().unwrap().clone()
    })
}
fn slot_enter(case: &Case) {
    // cloning is cheap next to lexing three variants; skip the copy for huge inputs
    // (a thread batch is thousands of lexer calls, not one: it is not timed as a single call)
    if case.kind != "batch" && case.texts.iter().map(|t| t.len()).sum::<usize>() < (1 << 20) {
        my_slot().lock().unwrap().case = Some((Instant::now(), case.clone()));
    }
}
fn slot_leave() {
    my_slot().lock().unwrap().case = None;
}
/// called by `api::lex` around every lexer call: only time spent *inside the lexer* can become a "hang" verdict;
/// time spent in the harness's own oracles never does
pub fn lex_enter() {
    my_slot().lock().unwrap().lex_since = Some(Instant::now());
}
pub fn lex_leave() {
    my_slot().lock().unwrap().lex_since = None;
}
/// check a case under the watchdog
pub fn guarded_check(prop: &dyn Property, case: &Case) -> Verdict {
    slot_enter(case);
    let t0 = Instant::now();
    let v = prop.check(case);
    slot_leave();
    if t0.elapsed().as_millis() >= 700 && std::env::var_os("VERIF_SLOW_CASES").is_some() {
        eprintln!("slow case: {:.1} s, kind {}, {} bytes, starts {:?}", t0.elapsed().as_secs_f64(), case.kind, case.t0().len(), trunc(case.t0(), 40));
    }
    v
}
pub const HANG_SECS: u64 = 45;
/// a whole check (all variants + oracles) that takes this long stops the run as inconclusive
pub const CHECK_SECS: u64 = 600;
pub const RSS_LIMIT: u64 = 12 << 30;
pub fn rss_bytes() -> u64 {
    std::fs::read_to_string("/proc/self/statm").ok().and_then(|s| s.split_whitespace().nth(1).and_then(|x| x.parse::<u64>().ok())).map_or(0, |pages| pages * 4096)
}
fn longest_lexer_call() -> Option<std::time::Duration> {
    let g = SLOTS.lock().unwrap();
    g.iter().filter_map(|s| s.lock().unwrap().lex_since.map(|t| t.elapsed())).max()
}
/// used by `verif replay`: a single lexer call of the replayed case must return within 60 s and the process must stay
/// below 4 GiB, else exit 3; a replay that is slow for any other reason (the harness's own work) ends with exit 4
pub fn start_replay_guard() {
    std::thread::spawn(|| {
        let t0 = Instant::now();
        loop {
            std::thread::sleep(std::time::Duration::from_millis(100));
            if longest_lexer_call().map_or(false, |d| d.as_secs() >= 60) || rss_bytes() > (4 << 30) {
                eprintln!("replay guard: a lexer call did not return within 60 s / 4 GiB");
                std::process::exit(3);
            }
            if t0.elapsed().as_secs() >= 900 {
                eprintln!("replay guard: the replay as a whole took more than 900 s (no single lexer call is stuck)");
                std::process::exit(4);
            }
        }
    });
}
/// Spawn the watchdog. A case that has not returned after HANG_SECS is saved as a replay file.
/// For C01 the replay is re-run in a fresh process; if it does not return there either (60 s per lexer call),
/// that is the violation "never hangs" (the input is a few hundred bytes; normal lexing takes
/// microseconds). In every other situation the run is inconclusive (exit 2).
pub fn start_watchdog(prop_id: &'static str, root: PathBuf, seed: u64) {
    std::thread::spawn(move || loop {
        std::thread::sleep(std::time::Duration::from_millis(500));
        let mut why = format!("a lexer call did not return within {HANG_SECS} s");
        let mut stuck: Option<Case> = {
            let g = SLOTS.lock().unwrap();
            let mut found = None;
            // a stuck call on a very large input (no case recorded) is slowness, not evidence; but when a small case is
            // stuck as well - or becomes stuck within another HANG_SECS - that one is the candidate
            let mut big_stuck_for = 0u64;
            for s in g.iter() {
                let st = s.lock().unwrap();
                if st.lex_since.map_or(false, |t| t.elapsed().as_secs() >= HANG_SECS) {
                    match &st.case {
                        Some((_, c)) => { found = Some(c.clone()); break; }
                        None => big_stuck_for = big_stuck_for.max(st.lex_since.map_or(0, |t| t.elapsed().as_secs())),
                    }
                    continue;
                }
                if st.case.as_ref().map_or(false, |(t, _)| t.elapsed().as_secs() >= CHECK_SECS) {
                    eprintln!("INCONCLUSIVE: one case took more than {CHECK_SECS} s in total although no single lexer call is stuck (the harness's own work is too slow on it)");
                    std::process::exit(2);
                }
            }
            if found.is_none() && big_stuck_for >= 2 * HANG_SECS + 5 {
                eprintln!("INCONCLUSIVE: a lexer call on an input of more than 1 MiB did not return within {} s (and no call on a smaller input is stuck)", 2 * HANG_SECS);
                std::process::exit(2);
            }
            found
        };
        if stuck.is_none() && rss_bytes() > RSS_LIMIT {
            // unbounded allocation: blame the case whose lexer call has been running longest
            let g = SLOTS.lock().unwrap();
            stuck = g.iter().filter_map(|s| { let st = s.lock().unwrap(); match (&st.lex_since, &st.case) { (Some(t), Some((_, c))) => Some((*t, c.clone())), _ => None } }).min_by_key(|(t, _)| *t).map(|(_, c)| c);
            why = format!("the process grew beyond {} GiB while a lexer call was running (unbounded allocation)", RSS_LIMIT >> 30);
            if stuck.is_none() {
                eprintln!("INCONCLUSIVE: memory guard hit ({why}) with no case in flight");
                std::process::exit(2);
            }
        }
        let Some(case) = stuck else { continue };
        let dir = root.join("replays").join("found");
        let _ = std::fs::create_dir_all(&dir);
        let h = hash_str(&format!("hang|{prop_id}|{:?}", case));
        let p = dir.join(format!("{prop_id}-hang-{h:016x}.json"));
        let v = json!({"property": prop_id, "rule": "hang", "signature": "hang", "message": why.clone(), "found_by": "watchdog", "seed": seed, "case": case_to_json(&case)});
        let _ = std::fs::write(&p, serde_json::to_string_pretty(&v).unwrap());
        eprintln!("watchdog: {why}; case saved as {}", p.display());
        if prop_id == "C01" {
            let exe = std::env::current_exe().unwrap();
            if let Ok(mut child) = std::process::Command::new(exe).arg("replay").arg(&p).arg("--property").arg("C01").stdout(std::process::Stdio::null()).stderr(std::process::Stdio::null()).spawn() {
                let t0 = Instant::now();
                loop {
                    let confirmed = match child.try_wait() {
                        // exit 3 = the replay guard of the child fired; a signal = it died allocating
                        Ok(Some(st)) if st.code() == Some(3) || st.code().is_none() => true,
                        Ok(Some(_)) => {
                            eprintln!("INCONCLUSIVE: the case returned when replayed in a fresh process");
                            std::process::exit(2);
                        }
                        Ok(None) if t0.elapsed().as_secs() >= 1000 => {
                            let _ = child.kill();
                            eprintln!("INCONCLUSIVE: the fresh-process replay neither finished nor reported a stuck lexer call");
                            std::process::exit(2);
                        }
                        Ok(None) => false,
                        Err(_) => std::process::exit(2),
                    };
                    match confirmed {
                        true => {
                            let ev = json!({"property_id": "C01", "tier": "quick", "seed": seed, "level": "exploration", "coverage": {"evaluations": 1, "distinct_nontrivial": 2, "rule": "run stopped by the watchdog: a lexer call never returned (reproduced in a fresh process)", "samples": [case.texts.first().cloned().unwrap_or_default()]}, "wall_s": HANG_SECS as f64 + 30.0, "violations": 1});
                            let _ = std::fs::write(root.join("evidence").join("C01.json"), serde_json::to_string_pretty(&ev).unwrap());
                            println!("  rule hang [watchdog]: {why}; replayed in a fresh process a lexer call again did not return within 60 s / 4 GiB; input {:?}", trunc(case.t0(), 200));
                            println!("VIOLATION property=C01 replay={}", p.display());
                            std::process::exit(1);
                        }
                        false => std::thread::sleep(std::time::Duration::from_millis(200)),
                    }
                }
            }
        }
        eprintln!("INCONCLUSIVE: a lexer call hangs on the saved case (that is C01's business); this check cannot continue");
        std::process::exit(2);
    });
}
const SAMPLES: usize = 8;

#[derive(Default)]
pub struct Stats {
    pub evaluations: u64,
    pub discards: BTreeMap<String, u64>,
    pub labels: BTreeMap<String, u64>,
    pub nontrivial: HashSet<u64>,
    pub nontrivial_cases: u64,
    /// deterministic sample choice: the non-trivial keys with the smallest hashes
    pub samples: BTreeMap<u64, String>,
    pub maxima: BTreeMap<&'static str, f64>,
    pub kf_hits: BTreeMap<usize, (u64, String)>,
    pub other_prop_violations: u64,
}
impl Stats {
    fn add(&mut self, vd: &Verdict) {
        self.evaluations += 1;
        if let Some(why) = vd.discard {
            *self.discards.entry(why.to_string()).or_default() += 1;
            return;
        }
        for l in &vd.labels {
            *self.labels.entry(l.clone()).or_default() += 1;
        }
        for (k, v) in &vd.maxima {
            let e = self.maxima.entry(k).or_insert(*v);
            if *v > *e {
                *e = *v;
            }
        }
        if vd.nontrivial {
            self.nontrivial_cases += 1;
            let h = hash_str(&vd.key);
            if self.nontrivial.insert(h) {
                if self.samples.len() < SAMPLES || self.samples.keys().next_back().map_or(false, |m| h < *m) {
                    self.samples.insert(h, trunc(&vd.key, 200));
                    if self.samples.len() > SAMPLES {
                        let last = *self.samples.keys().next_back().unwrap();
                        self.samples.remove(&last);
                    }
                }
            }
        }
    }
    fn merge(&mut self, o: Stats) {
        self.evaluations += o.evaluations;
        self.nontrivial_cases += o.nontrivial_cases;
        self.other_prop_violations += o.other_prop_violations;
        for (k, v) in o.discards {
            *self.discards.entry(k).or_default() += v;
        }
        for (k, v) in o.labels {
            *self.labels.entry(k).or_default() += v;
        }
        for (k, v) in o.maxima {
            let e = self.maxima.entry(k).or_insert(v);
            if v > *e {
                *e = v;
            }
        }
        self.nontrivial.extend(o.nontrivial);
        for (h, s) in o.samples {
            self.samples.insert(h, s);
        }
        while self.samples.len() > SAMPLES {
            let last = *self.samples.keys().next_back().unwrap();
            self.samples.remove(&last);
        }
        for (i, (n, s)) in o.kf_hits {
            let e = self.kf_hits.entry(i).or_insert((0, s));
            e.0 += n;
        }
    }
}

#[derive(Debug, Clone)]
pub struct Failure {
    pub case: Case,
    pub violation: Violation,
    pub found_by: String,
}

/// classify the violations of one verdict: unknown ones of this property are failures
fn triage(prop: &dyn Property, kf: &Known, vd: &Verdict, st: &mut Stats) -> Option<Violation> {
    let mut first: Option<Violation> = None;
    for v in &vd.violations {
        if v.prop != prop.id() {
            st.other_prop_violations += 1;
            continue;
        }
        match kf.matches(v) {
            Some(i) => {
                let e = st.kf_hits.entry(i).or_insert((0, trunc(&vd.key, 160)));
                e.0 += 1;
            }
            None => {
                if first.is_none() {
                    first = Some(v.clone());
                }
            }
        }
    }
    first
}

pub fn case_to_json(c: &Case) -> Value {
    json!({
        "kind": c.kind,
        "texts": c.texts,
        "bytes_hex": c.bytes.iter().map(|b| format!("{b:02x}")).collect::<String>(),
        "n": c.n,
        "gen": c.gen,
    })
}
pub fn case_from_json(v: &Value) -> Option<Case> {
    let kind = v.get("kind")?.as_str()?.to_string();
    let texts = v.get("texts")?.as_array()?.iter().filter_map(|x| x.as_str().map(|s| s.to_string())).collect();
    let hx = v.get("bytes_hex").and_then(|x| x.as_str()).unwrap_or("");
    let bytes = (0..hx.len() / 2).filter_map(|i| u8::from_str_radix(&hx[2 * i..2 * i + 2], 16).ok()).collect();
    let n = v.get("n").and_then(|x| x.as_u64()).unwrap_or(0);
    Some(Case { kind, texts, bytes, n, gen: "replay" })
}

/// does this case still fail for the same rule (and not only through known findings)?
fn still_fails(prop: &dyn Property, kf: &Known, case: &Case, rule: &str) -> Option<Violation> {
    let vd = prop.check(case);
    vd.violations.into_iter().find(|v| v.prop == prop.id() && v.rule == rule && kf.matches(v).is_none())
}

/// rule-preserving delta debugging on the texts / bytes of a case
pub fn shrink(prop: &dyn Property, kf: &Known, case: &Case, rule: &str) -> Case {
    let mut best = case.clone();
    if case.kind == "xtool" || case.kind == "xfresh" {
        // (source, digest observed by the other toolchain's harness): the pair is the evidence
        return best;
    }
    let mut budget = 1500usize;
    let big = best.texts.iter().map(|t| t.len()).sum::<usize>() > 200_000;
    if big {
        budget = 60;
    }
    // batch: drop whole texts first
    if best.kind == "batch" {
        let mut i = 0;
        while i < best.texts.len() && budget > 0 && best.texts.len() > 1 {
            let mut c = best.clone();
            c.texts.remove(i);
            budget -= 1;
            if still_fails(prop, kf, &c, rule).is_some() {
                best = c;
            } else {
                i += 1;
            }
        }
        return best;
    }
    for ti in 0..best.texts.len() {
        let mut chunk = (best.texts[ti].chars().count() / 2).max(1);
        loop {
            let mut progressed = false;
            let chars: Vec<char> = best.texts[ti].chars().collect();
            let mut start = 0;
            while start < chars.len() && budget > 0 {
                let end = (start + chunk).min(chars.len());
                let cand: String = chars[..start].iter().chain(chars[end..].iter()).collect();
                let mut c = best.clone();
                c.texts[ti] = cand;
                // C16 pairs must keep equal lengths: delete the same range from the partner
                if prop.id() == "C16" && best.texts.len() == 2 {
                    let other = 1 - ti;
                    let oc: Vec<char> = best.texts[other].chars().collect();
                    if oc.len() == chars.len() {
                        c.texts[other] = oc[..start].iter().chain(oc[end..].iter()).collect();
                    }
                }
                budget -= 1;
                if still_fails(prop, kf, &c, rule).is_some() {
                    best = c;
                    progressed = true;
                    break;
                }
                start += chunk;
            }
            if budget == 0 {
                break;
            }
            if !progressed {
                if chunk == 1 {
                    break;
                }
                chunk = (chunk / 2).max(1);
            }
        }
    }
    if !best.bytes.is_empty() {
        let mut chunk = (best.bytes.len() / 2).max(1);
        loop {
            let mut progressed = false;
            let mut start = 0;
            while start < best.bytes.len() && budget > 0 {
                let end = (start + chunk).min(best.bytes.len());
                let mut c = best.clone();
                c.bytes.drain(start..end);
                budget -= 1;
                if still_fails(prop, kf, &c, rule).is_some() {
                    best = c;
                    progressed = true;
                    break;
                }
                start += chunk;
            }
            if budget == 0 {
                break;
            }
            if !progressed {
                if chunk == 1 {
                    break;
                }
                chunk = (chunk / 2).max(1);
            }
        }
        // lower single bytes towards zero (simpler choices)
        for i in 0..best.bytes.len() {
            if budget == 0 {
                break;
            }
            if best.bytes[i] != 0 {
                let mut c = best.clone();
                c.bytes[i] = 0;
                budget -= 1;
                if still_fails(prop, kf, &c, rule).is_some() {
                    best = c;
                }
            }
        }
    }
    best
}

pub struct RunCfg {
    pub tier: Tier,
    pub seed: u64,
    pub root: PathBuf,
    pub cases_override: Option<u64>,
    pub skip_sweeps: bool,
}

pub struct Outcome {
    pub failures: Vec<(Failure, PathBuf)>,
    pub stats: Stats,
    pub sweeps: Vec<Value>,
    pub wall_s: f64,
    pub replayed: u64,
    pub random_cases: u64,
}

fn write_replay(root: &PathBuf, prop: &dyn Property, f: &Failure, seed: u64) -> PathBuf {
    let dir = root.join("replays").join("found");
    let _ = std::fs::create_dir_all(&dir);
    let h = hash_str(&format!("{}|{}|{:?}", f.violation.sig, prop.id(), f.case));
    let p = dir.join(format!("{}-{:016x}.json", prop.id(), h));
    let v = json!({
        "property": prop.id(),
        "rule": f.violation.rule,
        "signature": f.violation.sig,
        "message": f.violation.msg,
        "found_by": f.found_by,
        "seed": seed,
        "case": case_to_json(&f.case),
    });
    let _ = std::fs::write(&p, serde_json::to_string_pretty(&v).unwrap());
    p
}

pub fn load_replay(path: &std::path::Path) -> Option<(String, Case)> {
    let txt = std::fs::read_to_string(path).ok()?;
    let v: Value = serde_json::from_str(&txt).ok()?;
    let prop = v.get("property")?.as_str()?.to_string();
    let case = case_from_json(v.get("case")?)?;
    Some((prop, case))
}

fn run_sweep(sw: &dyn crate::props::Sweep, prop: &dyn Property, kf: &Known, threads: usize, stats: &mut Stats, failures: &mut Vec<Failure>, sweep_info: &mut Vec<serde_json::Value>) {
        let ts = Instant::now();
        let next = AtomicUsize::new(0);
        let nchunks = sw.chunks();
        let found: Mutex<BTreeMap<String, Failure>> = Mutex::new(BTreeMap::new());
        let merged: Mutex<Stats> = Mutex::new(Stats::default());
        std::thread::scope(|sc| {
            for _ in 0..threads.min(nchunks.max(1)) {
                sc.spawn(|| {
                    let mut st = Stats::default();
                    loop {
                        let c = next.fetch_add(1, Ordering::SeqCst);
                        if c >= nchunks {
                            break;
                        }
                        sw.run_chunk(c, &mut |case: Case| {
                            let vd = guarded_check(prop, &case);
                            let fail = triage(prop, kf, &vd, &mut st);
                            st.add(&vd);
                            if let Some(v) = fail {
                                let mut g = found.lock().unwrap();
                                if g.len() < 64 {
                                    let better = g.get(&v.sig).map_or(true, |old| case_size(&case) < case_size(&old.case));
                                    if better {
                                        g.insert(v.sig.clone(), Failure { case, violation: v, found_by: format!("sweep: {}", sw.name()) });
                                    }
                                }
                            }
                        });
                    }
                    merged.lock().unwrap().merge(st);
                });
            }
        });
        let st = merged.into_inner().unwrap();
        sweep_info.push(json!({"sweep": sw.name(), "evaluations": st.evaluations, "exhaustive": sw.exhaustive(), "wall_s": ts.elapsed().as_secs_f64()}));
        stats.merge(st);
        let found = found.into_inner().unwrap();
        // keep a few distinct signatures
        for (_, f) in found.into_iter().take(4) {
            failures.push(f);
        }
}

pub fn run(prop: &dyn Property, kf: &Known, cfg: &RunCfg) -> Outcome {
    let t0 = Instant::now();
    let mut stats = Stats::default();
    let mut failures: Vec<Failure> = vec![];
    let threads = std::thread::available_parallelism().map(|n| n.get()).unwrap_or(8).min(32);

    // ---- tier 0: committed replays of this property (seconds-long regression tier)
    let mut replayed = 0u64;
    let rdir = cfg.root.join("replays").join(prop.id());
    let mut files: Vec<PathBuf> = std::fs::read_dir(&rdir).map(|rd| rd.filter_map(|e| e.ok()).map(|e| e.path()).filter(|p| p.extension().map_or(false, |x| x == "json")).collect()).unwrap_or_default();
    files.sort();
    for p in files {
        if let Some((pid, case)) = load_replay(&p) {
            if pid != prop.id() {
                continue;
            }
            replayed += 1;
            let vd = guarded_check(prop, &case);
            let fail = triage(prop, kf, &vd, &mut stats);
            stats.add(&vd);
            if let Some(v) = fail {
                failures.push(Failure { case, violation: v, found_by: format!("replay of {}", p.display()) });
            }
        }
    }

    // ---- tier 1: sweeps (bounded-exhaustive and systematic families); those on very large inputs run after the random
    // tier, so that a lexer that hangs is first met on a small input (which the watchdog can confirm in a fresh process)
    let mut sweep_info = vec![];
    let all_sweeps = if cfg.skip_sweeps { vec![] } else { prop.sweeps(cfg.tier, cfg.seed) };
    for sw in all_sweeps.iter().filter(|sw| !sw.after_random()) {
        run_sweep(sw.as_ref(), prop, kf, threads, &mut stats, &mut failures, &mut sweep_info);
    }

    // ---- tier 2: seeded proptest over the choice stream, NSHARDS independent runners
    let total = cfg.cases_override.unwrap_or_else(|| prop.cases(cfg.tier));
    let per = total.div_ceil(NSHARDS as u64);
    let merged: Mutex<Stats> = Mutex::new(Stats::default());
    let found: Mutex<Vec<Failure>> = Mutex::new(vec![]);
    let next = AtomicUsize::new(0);
    if total > 0 {
        std::thread::scope(|sc| {
            for _ in 0..threads.min(NSHARDS) {
                sc.spawn(|| loop {
                    let shard = next.fetch_add(1, Ordering::SeqCst);
                    if shard >= NSHARDS {
                        break;
                    }
                    let seed = mix2(mix2(cfg.seed, tag(prop.id())), shard as u64);
                    let mut seed_bytes = [0u8; 32];
                    for (i, b) in seed_bytes.iter_mut().enumerate() {
                        *b = (mix2(seed, i as u64) & 0xff) as u8;
                    }
                    let config = Config {
                        cases: per as u32,
                        failure_persistence: None,
                        rng_algorithm: RngAlgorithm::ChaCha,
                        rng_seed: RngSeed::Fixed(seed),
                        max_shrink_iters: 4000,
                        max_global_rejects: u32::MAX,
                        max_local_rejects: u32::MAX,
                        ..Config::default()
                    };
                    let _ = seed_bytes;
                    let mut runner = TestRunner::new(config);
                    let strat = pvec(any::<u8>(), 0..prop.stream_len());
                    let st = std::cell::RefCell::new(Stats::default());
                    let failed = AtomicBool::new(false);
                    let first_rule: std::cell::RefCell<Option<String>> = std::cell::RefCell::new(None);
                    let res = runner.run(&strat, |bytes| {
                        let mut s = Src::new(&bytes);
                        let case = prop.generate(&mut s);
                        let vd = guarded_check(prop, &case);
                        let counting = !failed.load(Ordering::Relaxed);
                        let mut tmp = Stats::default();
                        let fail = if counting {
                            let mut g = st.borrow_mut();
                            let f = triage(prop, kf, &vd, &mut g);
                            g.add(&vd);
                            f
                        } else {
                            triage(prop, kf, &vd, &mut tmp)
                        };
                        match fail {
                            Some(v) => {
                                // while shrinking, only accept failures of the same rule
                                let mut fr = first_rule.borrow_mut();
                                match &*fr {
                                    None => {
                                        *fr = Some(v.rule.clone());
                                        failed.store(true, Ordering::Relaxed);
                                        Err(TestCaseError::fail(v.sig))
                                    }
                                    Some(r) if *r == v.rule => Err(TestCaseError::fail(v.sig)),
                                    Some(_) => Ok(()),
                                }
                            }
                            None => Ok(()),
                        }
                    });
                    merged.lock().unwrap().merge(st.into_inner());
                    if let Err(TestError::Fail(_, bytes)) = res {
                        let mut s = Src::new(&bytes);
                        let case = prop.generate(&mut s);
                        let vd = prop.check(&case);
                        let rule = first_rule.borrow().clone().unwrap_or_default();
                        if let Some(v) = vd.violations.iter().find(|v| v.prop == prop.id() && v.rule == rule && kf.matches(v).is_none()).cloned() {
                            found.lock().unwrap().push(Failure { case, violation: v, found_by: format!("proptest shard {shard} (seed {seed})") });
                        }
                    }
                });
            }
        });
    }
    stats.merge(merged.into_inner().unwrap());
    failures.extend(found.into_inner().unwrap());
    for sw in all_sweeps.iter().filter(|sw| sw.after_random()) {
        run_sweep(sw.as_ref(), prop, kf, threads, &mut stats, &mut failures, &mut sweep_info);
    }

    // ---- shrink and persist (at most a few distinct signatures)
    let mut by_sig: BTreeMap<String, Failure> = BTreeMap::new();
    for f in failures {
        let e = by_sig.entry(f.violation.sig.clone());
        match e {
            std::collections::btree_map::Entry::Vacant(v) => {
                v.insert(f);
            }
            std::collections::btree_map::Entry::Occupied(mut o) => {
                if case_size(&f.case) < case_size(&o.get().case) {
                    o.insert(f);
                }
            }
        }
    }
    let mut out = vec![];
    for (_, f) in by_sig.into_iter().take(6) {
        let is_replay = f.found_by.starts_with("replay of");
        let small = if is_replay { f.case.clone() } else { shrink(prop, kf, &f.case, &f.violation.rule) };
        let v = still_fails(prop, kf, &small, &f.violation.rule).unwrap_or(f.violation.clone());
        let ff = Failure { case: small, violation: v, found_by: f.found_by.clone() };
        let p = write_replay(&cfg.root, prop, &ff, cfg.seed);
        out.push((ff, p));
    }
    Outcome { failures: out, stats, sweeps: sweep_info, wall_s: t0.elapsed().as_secs_f64(), replayed, random_cases: total }
}

fn case_size(c: &Case) -> usize {
    c.texts.iter().map(|t| t.len()).sum::<usize>() + c.bytes.len()
}

pub fn evidence_json(prop: &dyn Property, kf: &Known, cfg: &RunCfg, o: &Outcome, extra: Value) -> Value {
    let st = &o.stats;
    let top_labels: BTreeMap<&String, &u64> = st.labels.iter().collect();
    let kf_hits: Vec<Value> = st.kf_hits.iter().map(|(i, (n, s))| json!({"id": kf.findings[*i].id, "signature": kf.findings[*i].signature, "hits": n, "example": s})).collect();
    let exhaustive_parts: Vec<&Value> = o.sweeps.iter().filter(|s| s["exhaustive"] == json!(true)).collect();
    json!({
        "property_id": prop.id(),
        "tier": if cfg.tier == Tier::Quick { "quick" } else { "thorough" },
        "seed": cfg.seed,
        "level": "exploration",
        "coverage": {
            "evaluations": st.evaluations,
            "distinct_nontrivial": st.nontrivial.len(),
            "nontrivial_cases": st.nontrivial_cases,
            "rule": prop.rule(),
            "samples": st.samples.values().collect::<Vec<_>>(),
            "exhaustive": false,
            "exhaustive_subspaces": exhaustive_parts,
            "sweeps": o.sweeps,
            "random_cases_requested": o.random_cases,
            "proptest_shards": NSHARDS,
            "replayed_regressions": o.replayed,
            "discards": st.discards,
            "labels": top_labels,
            "maxima": st.maxima,
            "known_finding_hits": kf_hits,
            "violations_of_other_properties_seen": st.other_prop_violations,
            "extra": extra,
        },
        "assumptions": prop.assumptions(),
        "wall_s": o.wall_s,
        "violations": o.failures.len(),
    })
}
