//! Engine E2 glue: what the libFuzzer targets call. The oracle is the same `Property::check`
//! that the proptest runner uses; a violation that is not a listed known finding is written as a
//! replay file and then aborts the process (libFuzzer saves the input as a crash artifact).
use crate::core::Case;
use crate::kf::Known;
use crate::props::{self, Property};
use crate::su::Src;
use std::sync::OnceLock;

struct Ctx {
    kf: Known,
    text: Vec<Box<dyn Property>>,
    choice: Vec<Box<dyn Property>>,
}
fn ctx() -> &'static Ctx {
    static C: OnceLock<Ctx> = OnceLock::new();
    C.get_or_init(|| {
        crate::api::install_panic_hook();
        let sel: Option<Vec<String>> = std::env::var("VERIF_FUZZ_PROPS").ok().map(|s| s.split(',').map(|x| x.trim().to_string()).filter(|x| !x.is_empty()).collect());
        let want = |id: &str| sel.as_ref().map_or(true, |v| v.iter().any(|x| x == id));
        let text_ids = ["C01", "C02", "C03", "C04", "C05", "C06", "C07", "C08", "C09", "C10", "C11", "C17", "C18", "C19"];
        let choice_ids = ["C01", "C02", "C03", "C04", "C05", "C06", "C07", "C08", "C09", "C10", "C11", "C12", "C13", "C14", "C15", "C16", "C17", "C18", "C19"];
        Ctx {
            kf: Known::load(),
            text: props::all().into_iter().filter(|p| text_ids.contains(&p.id()) && want(p.id())).collect(),
            choice: props::all().into_iter().filter(|p| choice_ids.contains(&p.id()) && want(p.id())).collect(),
        }
    })
}
pub fn text_props() -> &'static [Box<dyn Property>] {
    &ctx().text
}
pub fn choice_props() -> &'static [Box<dyn Property>] {
    &ctx().choice
}

fn report(prop: &dyn Property, case: &Case, v: &crate::core::Violation) -> ! {
    let root = crate::gen::verif_root();
    let dir = root.join("replays").join("found");
    let _ = std::fs::create_dir_all(&dir);
    let h = crate::su::hash_str(&format!("{}|{}|{:?}", v.sig, prop.id(), case));
    let p = dir.join(format!("{}-fuzz-{:016x}.json", prop.id(), h));
    let j = serde_json::json!({
        "property": prop.id(), "rule": v.rule, "signature": v.sig, "message": v.msg, "found_by": "libFuzzer", "seed": 0,
        "case": crate::runner::case_to_json(case),
    });
    let _ = std::fs::write(&p, serde_json::to_string_pretty(&j).unwrap());
    eprintln!("FUZZ-VIOLATION property={} replay={} rule={} :: {}", prop.id(), p.display(), v.rule, v.msg);
    std::process::abort();
}

pub fn run_props(ps: &[Box<dyn Property>], case: &Case, _raw: &[u8]) {
    let kf = &ctx().kf;
    for p in ps {
        if p.id() == "C11" && !crate::oracle::reflex::is_macro_free(case.t0()) {
            // make it macro-free by construction instead of rejecting
            let c = Case::text("libfuzzer-sanitized", crate::props::refl::sanitize(case.t0()));
            let vd = p.check(&c);
            for v in &vd.violations {
                if v.prop == p.id() && kf.matches(v).is_none() {
                    report(p.as_ref(), &c, v);
                }
            }
            continue;
        }
        let vd = p.check(case);
        for v in &vd.violations {
            if v.prop == p.id() && kf.matches(v).is_none() {
                report(p.as_ref(), case, v);
            }
        }
    }
}

pub fn run_generated(ps: &[Box<dyn Property>], data: &[u8]) {
    let kf = &ctx().kf;
    for p in ps {
        let mut s = Src::new(data);
        let case = p.generate(&mut s);
        let vd = p.check(&case);
        for v in &vd.violations {
            if v.prop == p.id() && kf.matches(v).is_none() {
                report(p.as_ref(), &case, v);
            }
        }
    }
}
