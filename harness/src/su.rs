//! Choice stream: every generator is a deterministic function of a byte string.
//! The same generators are driven by proptest (`vec(any::<u8>())`, shrinking on the bytes),
//! by libFuzzer (the fuzzer input *is* the choice stream) and by saved replay files.
//! An exhausted stream yields 0 for every choice, which every generator maps to its simplest
//! alternative, so shorter / zeroed streams mean simpler cases. Choices are mapped monotonically
//! (`b * n >> 8`), so lowering a byte never makes a case more complex.

pub struct Src<'a> {
    data: &'a [u8],
    pos: usize,
}

impl<'a> Src<'a> {
    pub fn new(data: &'a [u8]) -> Self {
        Src { data, pos: 0 }
    }
    #[inline]
    pub fn byte(&mut self) -> u8 {
        let b = self.data.get(self.pos).copied().unwrap_or(0);
        self.pos += 1;
        b
    }
    /// uniform-ish choice in `0..n`, monotone in the consumed byte(s)
    #[inline]
    pub fn below(&mut self, n: usize) -> usize {
        if n <= 1 {
            return 0;
        }
        if n <= 256 {
            (self.byte() as usize * n) >> 8
        } else {
            let v = ((self.byte() as usize) << 8) | self.byte() as usize;
            (v * n.min(65536)) >> 16
        }
    }
    /// true with probability num/den; an exhausted stream gives `false`
    #[inline]
    pub fn coin(&mut self, num: usize, den: usize) -> bool {
        // high values => true, so that zeroed streams take the "no" branch
        self.below(den) >= den - num
    }
    pub fn pick<'b>(&mut self, xs: &[&'b str]) -> &'b str {
        xs[self.below(xs.len())]
    }
    pub fn pick_t<X: Copy>(&mut self, xs: &[X]) -> X {
        xs[self.below(xs.len())]
    }
    pub fn exhausted(&self) -> bool {
        self.pos >= self.data.len()
    }
    pub fn remaining(&self) -> usize {
        self.data.len().saturating_sub(self.pos)
    }
    pub fn rest(&mut self) -> &'a [u8] {
        let r = &self.data[self.pos.min(self.data.len())..];
        self.pos = self.data.len();
        r
    }
    pub fn u64(&mut self) -> u64 {
        let mut v = 0u64;
        for _ in 0..8 {
            v = (v << 8) | self.byte() as u64;
        }
        v
    }
}

/// splitmix64, used only to derive per-shard / per-sweep seeds and fixed pseudo-random byte
/// streams from `VERIF_SEED` (never inside an oracle).
#[derive(Clone)]
pub struct Mix(pub u64);
impl Mix {
    pub fn new(seed: u64) -> Self {
        Mix(seed)
    }
    pub fn next(&mut self) -> u64 {
        self.0 = self.0.wrapping_add(0x9E37_79B9_7F4A_7C15);
        let mut z = self.0;
        z = (z ^ (z >> 30)).wrapping_mul(0xBF58_476D_1CE4_E5B9);
        z = (z ^ (z >> 27)).wrapping_mul(0x94D0_49BB_1331_11EB);
        z ^ (z >> 31)
    }
    pub fn below(&mut self, n: usize) -> usize {
        if n == 0 { 0 } else { (self.next() % n as u64) as usize }
    }
    pub fn bytes(&mut self, n: usize) -> Vec<u8> {
        let mut v = Vec::with_capacity(n + 8);
        while v.len() < n {
            v.extend_from_slice(&self.next().to_le_bytes());
        }
        v.truncate(n);
        v
    }
}
pub fn mix2(a: u64, b: u64) -> u64 {
    let mut m = Mix::new(a ^ b.rotate_left(32) ^ 0xD6E8_FEB8_6659_FD93);
    m.next() ^ m.next().rotate_left(17)
}
pub fn hash_str(s: &str) -> u64 {
    // FNV-1a 64
    let mut h = 0xcbf2_9ce4_8422_2325u64;
    for b in s.as_bytes() {
        h ^= *b as u64;
        h = h.wrapping_mul(0x0000_0100_0000_01B3);
    }
    h
}
pub fn tag(s: &str) -> u64 {
    hash_str(s)
}
