//! sasverif: property-based verification harness for mishamsk/sas-lexer (see /verif/DESIGN.md)
pub mod api;
pub mod core;
pub mod fuzz;
pub mod gen;
pub mod kf;
pub mod oracle;
pub mod props;
pub mod runner;
pub mod su;
