use sasverif::api::*;
use sasverif::kf::Known;
use sasverif::props::{self, Tier};
use sasverif::runner::{self, RunCfg};
use std::path::PathBuf;

fn arg_val(a: &[String], name: &str) -> Option<String> {
    a.iter().position(|x| x == name).and_then(|i| a.get(i + 1).cloned())
}

fn unescape(s: &str) -> String {
    s.replace("\\n", "\n").replace("\\t", "\t").replace("\\r", "\r").replace("\\BOM", "\u{feff}")
}

fn main() {
    let a: Vec<String> = std::env::args().collect();
    let cmd = a.get(1).map(|s| s.as_str()).unwrap_or("help");
    let root = sasverif::gen::verif_root();
    let seed: u64 = arg_val(&a, "--seed").or_else(|| std::env::var("VERIF_SEED").ok()).and_then(|s| s.parse().ok()).unwrap_or(1);
    match cmd {
        "lex" => {
            let src = unescape(&a[2]);
            for v in Variant::ALL {
                match lex(v, &src) {
                    Lexed::Ok(d) => println!("== {}\n{}", v.name(), render(&src, &d)),
                    x => println!("== {} {:?}", v.name(), x),
                }
            }
        }
        "check" => {
            let id = a.get(2).expect("property id");
            let tier = match arg_val(&a, "--tier").or_else(|| std::env::var("VERIF_TIER").ok()).as_deref() {
                Some("thorough") => Tier::Thorough,
                _ => Tier::Quick,
            };
            let Some(prop) = props::by_id(id) else {
                eprintln!("unknown property {id}");
                std::process::exit(2);
            };
            let kf = Known::load();
            let cfg = RunCfg { tier, seed, root: root.clone(), cases_override: arg_val(&a, "--cases").and_then(|s| s.parse().ok()), skip_sweeps: a.iter().any(|x| x == "--no-sweeps") };
            let pid: &'static str = Box::leak(id.clone().into_boxed_str());
            runner::start_watchdog(pid, root.clone(), seed);
            let out = runner::run(prop.as_ref(), &kf, &cfg);
            let mut extra = serde_json::json!({});
            if out.stats.labels.keys().any(|k| k.starts_with("type:")) {
                let all: Vec<String> = all_token_types().iter().map(|t| format!("{t:?}")).collect();
                let unseen: Vec<&String> = all.iter().filter(|n| !out.stats.labels.contains_key(&format!("type:{n}"))).collect();
                extra = serde_json::json!({"token_types_total": all.len(), "token_types_seen": all.len() - unseen.len(), "token_types_never_seen": unseen});
            }
            let ev = runner::evidence_json(prop.as_ref(), &kf, &cfg, &out, extra);
            let evp: PathBuf = arg_val(&a, "--evidence").map(PathBuf::from).unwrap_or_else(|| root.join("evidence").join(format!("{id}.json")));
            let _ = std::fs::create_dir_all(evp.parent().unwrap());
            std::fs::write(&evp, serde_json::to_string_pretty(&ev).unwrap()).expect("write evidence");
            println!(
                "{id} tier={} seed={seed}: {} evaluations ({} replayed, {} distinct non-trivial), {} discarded, {:.1}s",
                if tier == Tier::Quick { "quick" } else { "thorough" },
                out.stats.evaluations,
                out.replayed,
                out.stats.nontrivial.len(),
                out.stats.discards.values().sum::<u64>(),
                out.wall_s
            );
            // listed known findings: one line each (hits of this run)
            for (i, f) in kf.known_for(id) {
                let hits = out.stats.kf_hits.get(&i).map_or(0, |x| x.0);
                println!("KNOWN-FINDING: property={id} {} {} (signature {}; {} hit(s) in this run)", f.id, f.what, f.signature, hits);
            }
            for (f, p) in &out.failures {
                println!("  rule {} [{}]: {}", f.violation.rule, f.found_by, f.violation.msg);
                println!("  case: {}", serde_json::to_string(&runner::case_to_json(&f.case)).unwrap());
                println!("VIOLATION property={id} replay={}", p.display());
            }
            if !out.failures.is_empty() {
                std::process::exit(1);
            }
            if out.stats.nontrivial.len() < 2 {
                eprintln!("inconclusive: fewer than 2 distinct non-trivial cases");
                std::process::exit(2);
            }
        }
        "replay" => {
            let path = PathBuf::from(a.get(2).expect("replay file"));
            let Some((pid, case)) = runner::load_replay(&path) else {
                eprintln!("cannot read replay file {}", path.display());
                std::process::exit(2);
            };
            let pid = arg_val(&a, "--property").unwrap_or(pid);
            let prop = props::by_id(&pid).expect("property");
            let kf = Known::load();
            let strict = a.iter().any(|x| x == "--strict");
            runner::start_replay_guard();
            let vd = prop.check(&case);
            let mut bad = 0;
            for v in &vd.violations {
                if v.prop != prop.id() {
                    continue;
                }
                match kf.matches(v) {
                    Some(i) if !strict => println!("KNOWN-FINDING: property={pid} {} {}", kf.findings[i].id, v.msg),
                    _ => {
                        println!("  rule {} sig {}: {}", v.rule, v.sig, v.msg);
                        bad += 1;
                    }
                }
            }
            if let Some(d) = vd.discard {
                println!("discarded: {d}");
            }
            if a.iter().any(|x| x == "--show") {
                let mut texts = case.texts.clone();
                if case.kind == "gram" {
                    texts.push(props::gram_text(&case.bytes));
                }
                for t in &texts {
                    println!("--- text\n{t}");
                    if let Lexed::Ok(d) = lex(Variant::Rel, t) {
                        println!("{}", render(t, &d));
                    }
                }
            }
            if bad > 0 {
                println!("VIOLATION property={pid} replay={}", path.display());
                std::process::exit(1);
            }
            println!("replay {}: property {pid} holds on this case", path.display());
        }
        "gen-gram" => {
            // JSON list of well-formed programs for the Python side (C20)
            let n: usize = a.get(2).and_then(|s| s.parse().ok()).unwrap_or(100);
            let mut m = sasverif::su::Mix::new(sasverif::su::mix2(seed, 0x20));
            let mut v = vec![];
            for _ in 0..n {
                let len = 8 + m.below(200);
                let b = m.bytes(len);
                v.push(props::gram_text(&b));
            }
            println!("{}", serde_json::to_string(&v).unwrap());
        }
        "gram-types" => {
            // which token types do N construct-grammar programs contain? (coverage measurement, DESIGN 9.6)
            let n: usize = a.get(2).and_then(|s| s.parse().ok()).unwrap_or(20000);
            let mut m = sasverif::su::Mix::new(sasverif::su::mix2(seed, 0x22));
            let mut seen: std::collections::BTreeMap<String, u64> = Default::default();
            for _ in 0..n {
                let len = 8 + m.below(200);
                let b = m.bytes(len);
                let t = props::gram_text(&b);
                if let sasverif::api::Lexed::Ok(d) = sasverif::api::lex(sasverif::api::Variant::Rel, &t) {
                    for tk in &d.toks {
                        *seen.entry(format!("{:?}", tk.t)).or_default() += 1;
                    }
                }
            }
            let all: Vec<String> = sasverif::api::all_token_types().iter().map(|t| format!("{t:?}")).collect();
            let missing: Vec<&String> = all.iter().filter(|t| !seen.contains_key(*t)).collect();
            println!("{} of {} token types seen in {n} programs", seen.len(), all.len());
            println!("never seen: {missing:?}");
            let mut rare: Vec<(&String, &u64)> = seen.iter().filter(|(_, c)| **c < 20).collect();
            rare.sort_by_key(|(_, c)| **c);
            println!("seen fewer than 20 times: {rare:?}");
        }
        "gen-text" => {
            let n: usize = a.get(2).and_then(|s| s.parse().ok()).unwrap_or(100);
            let mut m = sasverif::su::Mix::new(sasverif::su::mix2(seed, 0x21));
            let mut v = vec![];
            for _ in 0..n {
                let len = 16 + m.below(240);
                let b = m.bytes(len);
                let mut s = sasverif::su::Src::new(&b);
                v.push(props::text_mix(&mut s, [10, 4, 1, 3, 2, 3, 2, 2]).1);
            }
            println!("{}", serde_json::to_string(&v).unwrap());
        }
        "digest-one" => {
            let line = a.get(2).cloned().unwrap_or_default();
            let bytes: Vec<u8> = (0..line.len() / 2).filter_map(|i| u8::from_str_radix(&line[2 * i..2 * i + 2], 16).ok()).collect();
            let s = String::from_utf8_lossy(&bytes).to_string();
            println!("{}", props::meta::digest_pair(&s));
        }
        "digest-server" => {
            use std::io::BufRead;
            let stdin = std::io::stdin();
            for line in stdin.lock().lines() {
                let Ok(line) = line else { break };
                let bytes: Vec<u8> = (0..line.len() / 2).filter_map(|i| u8::from_str_radix(&line[2 * i..2 * i + 2], 16).ok()).collect();
                let s = String::from_utf8_lossy(&bytes).to_string();
                println!("{}", props::meta::digest_pair(&s));
            }
        }
        "list" => {
            for p in props::all() {
                println!("{}", p.id());
            }
        }
        _ => {
            eprintln!("usage: verif check <Cxx> [--tier quick|thorough] [--seed N] | replay <file> [--strict] [--show] | lex <text> | gen-gram N | digest-server | list");
            std::process::exit(2);
        }
    }
}
