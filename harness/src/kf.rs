//! Known findings: genuine defects of the pinned tree that are recorded rather than repaired.
//! The file is committed and never written at run time. An entry with status "known" makes a
//! violation with exactly that (property, signature) a KNOWN-FINDING instead of a VIOLATION;
//! "fixed" entries suppress nothing.
use crate::core::Violation;
use serde_json::Value;

#[derive(Debug, Clone)]
pub struct Finding {
    pub property: String,
    pub id: String,
    pub status: String,
    pub signature: String,
    pub what: String,
    pub replay: Option<String>,
    pub commit: Option<String>,
}
#[derive(Debug, Clone, Default)]
pub struct Known {
    pub findings: Vec<Finding>,
}
impl Known {
    pub fn load() -> Known {
        let p = crate::gen::verif_root().join("known_findings.json");
        let mut k = Known::default();
        let Ok(txt) = std::fs::read_to_string(&p) else { return k };
        let Ok(v) = serde_json::from_str::<Value>(&txt) else {
            eprintln!("warning: {} is not valid JSON - ignored", p.display());
            return k;
        };
        if let Some(a) = v.get("findings").and_then(|x| x.as_array()) {
            for f in a {
                let g = |n: &str| f.get(n).and_then(|x| x.as_str()).map(|s| s.to_string());
                k.findings.push(Finding {
                    property: g("property").unwrap_or_default(),
                    id: g("id").unwrap_or_default(),
                    status: g("status").unwrap_or_default(),
                    signature: g("signature").unwrap_or_default(),
                    what: g("what").unwrap_or_default(),
                    replay: g("replay"),
                    commit: g("commit"),
                });
            }
        }
        k
    }
    /// index of the listed known finding that covers this violation
    pub fn matches(&self, v: &Violation) -> Option<usize> {
        self.findings.iter().position(|f| f.status == "known" && f.property == v.prop && sig_match(&f.signature, &v.sig))
    }
    pub fn known_for(&self, prop: &str) -> Vec<(usize, &Finding)> {
        self.findings.iter().enumerate().filter(|(_, f)| f.status == "known" && f.property == prop).collect()
    }
}
fn sig_match(pat: &str, sig: &str) -> bool {
    match pat.strip_suffix('*') {
        Some(p) => sig.starts_with(p),
        None => pat == sig,
    }
}
