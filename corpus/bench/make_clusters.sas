******************************************************************************;
* Copyright (c) 2015 by SAS Institute Inc., Cary, NC 27513 USA               *;
*                                                                            *;
* Licensed under the Apache License, Version 2.0 (the "License")             *;
* you may not use this file except in compliance with the License.           *;
* You may obtain a copy of the License at                                    *;
*                                                                            *;
*   http://www.apache.org/licenses/LICENSE-2.0                               *;
*                                                                            *;
* Unless required by applicable law or agreed to in writing, software        *;
* distributed under the License is distributed on an "AS IS" BASIS,          *;
* WITHOUT WARRANTIES OR CONDITIONS OF ANY KIND, either express or implied.   *;
* See the License for the specific language governing permissions and        *;
* limitations under the License.                                             *;
******************************************************************************;

******************************************************************************;
* script used to cluster image patches or a compressed representation of     *;
* image patches created by a stacked autoencoder                             *;
*   to be used:                                                              *;
*   - directly after threaded_tile.py or threaded_tile_r.py                  *;
*    OR                                                                      *;
*   - after make_dictionary.sas                                              *;
*                                                                            *;
* square images are imported from patches.csv                                *;
* random selection of images are displayed to check import                   *;
* OR a compressed representation from hidden_output.sas7bdat is used         *;
* (if hidden_output.sas7bdat is used, inputs are not displayed)              *;
* input images are clustered using the aligned box criterion (ABC) to        *;
*   automatically estimate the best number of clusters                       *;
* cluster labels are saved in OUT_DIR as cluster_labels.sas7bdat             *;
* clustering results are overlayed onto original images to visualize         *;
*   clusters                                                                 *;
*                                                                            *;
* CORE_COUNT - number of physical cores to use, int                          *;
* OUT_DIR - out (-o) directory created by Python script as unquoted string,  *;
*           must contain the generated csv files and is the directory in     *;
*           which to write the patches.sas7bdat file (if it does not exist), *;
*           and the cluster labels, cluster_labels.sas7bdat                  *;
* DIM - side length of square patches in IN_SET, probably (-d) value from    *;
*       Python script, int                                                   *;
* MAX_CLUSTERS - maximum number of clusters to test with ABC,                *;
*                int < 50 suggested                                          *;
* PLOT_RESULTS - plot the clustering results overlayed onto the original     *;
*                images, not suitable for many input images or extremely     *;
*                large input images, boolean int, 1 = true                   *;
******************************************************************************;

* TODO: user sets constants;
%let CORE_COUNT = 2;
%let OUT_DIR = ;
%let DIM = 25;
%let MAX_CLUSTERS = 20;
%let PLOT_RESULTS = 1;

* system options;
options threads;
ods html close;
ods listing;

options mprint;

*** plot_clusters ************************************************************;
* conditionally defines a graph template for each image;
* aligns patches in each cluster with the original image;
* plots results;
* label_var - name of variable containing cluster label;
%macro plot_clusters(label_var=_CLUSTER_ID_);

  * define a list of SAS/GRAPH colors;
  %let color_list = cream blue cyan gold green lilac lime magenta maroon
                    olive orange pink purple red rose salmon violet white
                    yellow;

  * place original image names into macro variable array;
  proc sql noprint;
    create table image_names as
    select distinct orig_name
    from l.originals;
  quit;
  data _null_;
    set image_names end=eof;
    call symput('image'||strip(put(_n_, best.)), strip(orig_name));
    if eof then call symput('n_images', strip(put(_n_, best.)));
  run;

  * loop for each original image;
  %do j=1 %to &n_images;

    proc sql;

      * determine max x value of image;
      select max(x) into: max_x
      from l.originals
      where orig_name = "&&image&j";

      * determine max y value of image;
      select max(y) into: max_y
      from l.originals
      where orig_name = "&&image&j";

      * determine number of clusters in image;
      select max(&label_var.) into: n_clus
      from l.cluster_labels
      where orig_name = "&&image&j";

    quit;

    * conditionally define gtl template based on image attributes;
    ods path show;
    ods path(prepend) work.templat(update);
    proc template;
      define statgraph contour;
        dynamic _title;
        begingraph;
          entrytitle _title;
          * assign consistent color to cluster labels across all images;
          discreteattrmap name="cluster_colors";
            %do i=1 %to &n_clus;
              %let color_index = %eval(%sysfunc(mod(%eval(&i-1), &n_clus))+1);
              %let _color = %scan(&color_list, &color_index, ' ');
              value "&i" / markerattrs=(color=&_color symbol=circlefilled);
            %end;
          enddiscreteattrmap;
          discreteattrvar attrvar=groupmarkers var=&label_var.
            attrmap="cluster_colors";
          * layout boundaries and axis attributes;
          layout overlay / aspectratio=1
            xaxisopts=(offsetmin=0 offsetmax=0 linearopts=(viewmin=0
              viewmax=%eval(&max_x.-1) tickvaluelist=(0 %eval(&max_x./2)
              %eval(&max_x.-1))))
            yaxisopts=(offsetmin=0 offsetmax=0 linearopts=(viewmin=0
              viewmax=%eval(&max_y.-1) tickvaluelist=(0 %eval(&max_y./2)
              %eval(&max_y.-1))));
            * contour plot of original image is bottom layer of layout;
            contourplotparm x=x y=y z=z /
              contourtype=gradient nlevels=255
              colormodel=twocolorramp;
            * a dense scatter plot of cluster patches is overlayed;
            * onto contour plot of original image;
            scatterplot x=scatter_x y=scatter_y /
              group=groupmarkers name="clus"
              /* transparency needs to be adjusted for different image sizes */
              markerattrs=(symbol=CircleFilled size=1px transparency=0.5);
          endlayout;
        endgraph;
      end;
    run;

    * loop for each cluster;
    %do k=1 %to &n_clus;

      * create x,y coordinates of clusters;
      * accounting for size and rotation;
      * sort into correct order to align with original image;
      data tiles_clus_expanded;
        set l.cluster_labels (where=(&label_var.=&k. and orig_name="&&image&j"));
        retain &label_var.;
        _x = x;
        _y = %eval(&max_y.-1) - y;
        do i=0 to size-1;
          do j=0 to size-1;
            y = _y - i;
            x = _x + j;
            if angle ne 0 then do;
              pi = constant("pi");
              _angle = (angle/180)*pi;
              x = floor(x*cos(_angle) - y*sin(_angle));
              y = floor(x*sin(_angle) + y*cos(_angle));
            end;
          output;
        end;
      end;
      keep x y orig_name &label_var.;
    run;
    proc sort nodupkey; by orig_name x y; run;

    * if no clusters for this label, continue;
    %let _rc = %sysfunc(open(tiles_clus_expanded));
    %let _nlobs = %sysfunc(attrn(&_rc, NLOBS));
    %let _rc = %sysfunc(close(&_rc));
    %if ^&_nlobs %then %goto continue;

    * align clusters with original image;
    data cluster_merge;
      merge l.originals (where=(orig_name="&&image&j"))
            tiles_clus_expanded;
      by orig_name x y;
      * gtl requires a different name for different layout layer attributes;
      if &label_var. ne . then do;
        scatter_x = x;
        scatter_y = y;
      end;
    run;

    * render image;
    proc sgrender data=cluster_merge template=contour;
      dynamic _title="&&image&j cluster &k";
    run;

    %continue:

    %end; /* end cluster loop */

  %end; /* end image loop */

%mend;

*** main macro ***************************************************************;
* drive execution conditionally;
* based on the presence of hidden_output.sas7bdat;
%macro main;

  * start timer;
  %let start = %sysfunc(datetime());

  *** import necessary data;

  * libref to OUT_DIR;
  libname l "&OUT_DIR.";

  * working dir to OUT_DIR;
  x "cd &OUT_DIR";

  * if l.hidden_output does not exist;
  * import raw patches;
  * and check visually;
  %let ds = l.patches;
  %if ^%sysfunc(exist(l.hidden_output)) %then %do;
    %if ^%sysfunc(exist(l.patches)) %then %do;

      proc import
        datafile="&OUT_DIR./patches.csv"
        out=&ds
        dbms=csv
        replace;
      run;

    %end;
  %end;
  %else %let ds = l.hidden_output;

  * import original images;
  proc import
    datafile="&OUT_DIR./originals.csv"
    out=l.originals
    dbms=csv
    replace;
  run;
  proc sort
    data=l.originals
    sortsize=MAX;
    by orig_name x y;
  run;

  *** view random patches;
  * if clustering l.patches;

  %if "&ds" = "l.patches" %then %do;

    * define gtl template;
    ods path show;
    ods path(prepend) work.templat(update);
    proc template;
      define statgraph contour;
        dynamic _title;
        begingraph;
          entrytitle _title;
          layout overlayequated / equatetype=square
            commonaxisopts=(viewmin=0 viewmax=%eval(&DIM.-1)
                            tickvaluelist=(0 %eval(&DIM./2) &DIM.-1))
            xaxisopts=(offsetmin=0 offsetmax=0)
            yaxisopts=(offsetmin=0 offsetmax=0);
            contourplotparm x=x y=y z=z /
              contourtype=gradient nlevels=255
              colormodel=twocolorramp;
           endlayout;
       endgraph;
      end;
    run;

    * create random sample of patches;
    proc surveyselect
      data=l.patches
      out=samp
      method=srs
      n=20; 
    run;

    * convert random patches to contours;
    data _xyz;
      set samp;	
      array pixels pixel_:;
      pic_ID = _n_;
      do j=1 to %eval(&DIM*&DIM);
        x = (j-&DIM*floor((j-1)/&DIM))-1;
        y = (%eval(&DIM+1)-ceil(j/&DIM))-1;
        z = 255-pixels[j];
        output;
        keep pic_ID x y z;
      end;
    run;

    * render selected patches;
    proc sgrender data=_xyz template=contour;
      dynamic _title="Input Image";
      by pic_ID;
    run;

  %end;

  *** cluster inputs;

  * cluster patches using ABC to determine best number of clusters;
  proc hpclus
    data=&ds
    maxclusters=&MAX_CLUSTERS
    noc=abc(b=10 minclusters=2 align=PCA criterion=all)
    maxiter=1000
    seed=44444;
    %if "&ds" = "l.patches" %then %do;
      input pixel_: / level=interval;
    %end;
    %else %do;
      input h: / level=interval;
    %end;
    id x y orig_name size angle;
    performance threads=&CORE_COUNT;
    score out=l.cluster_labels;
    code file="&OUT_DIR./cluster_score.sas";
    ods output
      abcstats=_abcstats
      abcresults=_abcresults;
  run;

  * ABC plot;
  data _null_;
    set _abcresults;
    call symput('best_k', strip(put(K, best.)));
  run;
  title "ABC Plot for Image Patches";
  proc sgplot data=_abcstats;;
    xaxis type=discrete;
    series x=K y=Gap;
    refline &best_k. / axis=x label="Selected Number of Clusters";
  run;
  title;

  *** conditionally plot results;
  %if &PLOT_RESULTS %then %do;
    %plot_clusters;
  %end;

  * end timer;
  %put NOTE: Total elapsed time: %sysfunc(putn(%sysevalf(%sysfunc(datetime())-&start), 10.2)) seconds.;

%mend;
%main;
