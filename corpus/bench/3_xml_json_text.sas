******************************************************************************;
* Copyright (c) 2015 by SAS Institute Inc., Cary, NC 27513 USA               *;
*                                                                            *;
* Licensed under the Apache License, Version 2.0 (the "License");            *;
* you may not use this file except in compliance with the License.           *;
* You may obtain a copy of the License at                                    *;
*                                                                            *;
*   http://www.apache.org/licenses/LICENSE-2.0                               *;
*                                                                            *;
* Unless required by applicable law or agreed to in writing, software        *;
* distributed under the License is distributed on an "AS IS" BASIS,          *;
* WITHOUT WARRANTIES OR CONDITIONS OF ANY KIND, either express or implied.   *;
* See the License for the specific language governing permissions and        *;
* limitations under the License.                                             *;
******************************************************************************;

******************************************************************************;
* SECTION 3 - XML, JSON, and text                                            *;
******************************************************************************;

* define git_repo_dir macro variable;
%let git_repo_dir = /folders/myshortcuts/SAS_GWU_examples;

* set directory separator;
%let dsep = /; /* comment line for windows (but not for unversity edition) */
* %let dsep = \; /* uncomment line for windows */

*** XML **********************************************************************;

* one way to process semi-structured XML data using SAS;
* is the SAS XML libname;
* PROC GROOVY provides another method to ingest JSON using SAS;

* define a library reference to the example.xml file;
* then you can treat it like a SAS data set;
libname x xml92 "&git_repo_dir";

* read data into SAS work;
* create scratch set;
data scratch;
	set x.example;
run;

* data cleaning exercise;
* fix variable1 to have 2 decimal points;
* fix variable2 to be a numeric variable;
* converting a character variable to a numeric variable (and vise versa);
* is a common data cleaning operation in SAS;
* formatted variables are also common in SAS;
* recreate scratch set;
data scratch;

	/* rename variable2 before it is read */
	/* use length statement before set statement */
	/* to enforce order of variables in the new set */
	/* and to define new variable2 as numeric explicitly */
	
	/* input() function converts a character value into a numeric value */
	/* ?? prevents an error when an invalid value is encountered */
	/* best. is a SAS informat */
	/* it determines the best format for reading variable2c */
	
	/* compress() removes white space from characters */
	
	/* account for invalid data */
	/* convert numeric missing to code: 99 */
	
	/* 10.2 format limits variable1 to 10 digits with 2 decimal points */
	/* 2. format limits variable2 to 2 digits */
	
	/* drop variable2c in data step */

	length variable1 variable2 8 variable3 $6;
	set scratch (rename=(variable2=variable2c));
	variable2 = input(compress(variable2c), ?? best.);
	if variable2 = . then variable2 = 99;
	format variable1 10.2;
	format variable2 2.;
	drop variable2c;
run;

* write the clean temp data back to XML;
data x.clean_example;
	set scratch;
run;

* deassign libref x;
libname x;

*** JSON *********************************************************************;

* one way to process semi-structured JSON data using SAS;
* is the data step with the truncover and scanover options;

* create a file reference to the example.json file;
filename json "&git_repo_dir.&dsep.example.json";

* use a data step to ingest the JSON file;
* read desired JSON elements as character strings;
* create scratch2 set;
data scratch2;

	/* infile statement reads from an external file */
	/* infile and data step provide A LOT of flexibility */
	/* lrecl defines the maximum length of a single record in an external file */
	/* truncover allows records to be shorter than expected */
	/* scanover scans for the @'character-string' expression */
	/* input statement creates new SAS variables */

	infile json lrecl = 1000 truncover scanover;
	input @'"variable1": ' c_variable1 $255.
		@'"variable2": ' c_variable2 $255.
		@'"variable3": "' c_variable3 $255.;
run;

* use data step functions and SAS formats;
* to tidy up JSON input;
* recreate scratch2 set;
data scratch2;
	length variable1 variable2 8 variable3 $6;
	infile json lrecl=32767 truncover scanover;
	input @'"variable1": ' c_variable1 $255.
		@'"variable2": ' c_variable2 $255.
		@'"variable3": "' c_variable3 $255.;
	/* substr() returns a segment of a string */
	/* SAS strings are indexed from 1 */
	/* indexc() returns the position of a character */
	variable1 = input(substr(c_variable1, 1, indexc(c_variable1, ',"')-1), best.);
	variable2 = input(substr(c_variable2, 1, indexc(c_variable2, ',"')-1), best.);
	variable3 = strip(substr(c_variable3, 1, indexc(c_variable3, ',"')-1));
	format variable1 10.2;
	format variable2 2.;
	/* drop original variable read from JSON */
	drop c_:;
run;

* deassign fileref json;
filename json; 

*** text *********************************************************************;

* create a file reference to the example.txt file;
* each line contains a tweet; 
filename txt "&git_repo_dir.&dsep.example.txt";

* each line will be one line of the data set;
* create scratch3 set;
data scratch3;
	length line $140.;          /* tweets are 140 characters */
	infile txt delimiter='0a'x; /* hex character for line return */
	informat line $140.;
	input line $;
run;

* basic text normalization;
* use data step functions including prx functions;
* regular expressions are a flexible tool for manipulating text;
* SAS surfaces regular expressions through the prx functions;
* recreate scratch3 set;
data scratch3;

	/* compile regular expression */
	/* find http* and replace with one blank space */
	/* all text to lower case */
	/* use regular expression to remove urls */
	/* remove non-alphabetical characters */

	regex = prxparse('s/http.*( |)/ /');
	length line $140.;
	infile txt dlm='0a'x;
	informat line $140.;
	input line $;
	line = lowcase(line);
	call prxchange(regex, -1, line);
	line = compress(line, '?@#:&!".');
	drop regex;
run;

*** create a term by document (tbd) matrix ***********************************;

* term by document matrix is often represented by rows of 3-tuples;
* (document ID, term ID, term count);
* a term by document matrix in this format is suitable for text mining;

* first step toward creating a tbd matrix; 
* transpose wide data into long data;
* create scratch4 set;
data scratch4;

	/* give each tweet a numeric ID using a retained variable*/
	/* use a do loop to put each term into its own row */
	/* scan() function returns the ith element of a delimited list */
	/* remove short terms that are usually not informative */
	
	set scratch3;
	retain tweet_id 1;
	n_terms = countw(line);
	do i=1 to n_terms;
		term = scan(line, i);
		if length(term) > 2 then output;
	end;
	tweet_id + 1;
	drop line n_terms i;
run;

* create a dictionary of unique terms;
* add term ID number to dictionary;
proc sort
	data=scratch4(keep=term)
	out=dictionary
	/* remove duplicate terms */
	nodupkey;
	by term;
run;
data dictionary;
	set dictionary;
	term_id = _n_;
run;

* sort scratch4 set by term and join to term IDs;
proc sort
	data=scratch4;
	by term;
run;
data scratch4;
	merge scratch4 dictionary;
	by term;
run;

* create term by document matrix;
* use by variables and a retained variable;
* to count terms in each tweet;
proc sort
	data=scratch4;
	by tweet_id term_id;
run;
data tbd;
	set scratch4;
	by tweet_id term_id;
	retain count 0;
	if first.term_id then count = 0;
	count + 1;
	keep tweet_id term_id count;
run;









