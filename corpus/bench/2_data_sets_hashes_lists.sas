******************************************************************************;
* Copyright (c) 2015 by SAS Institute Inc., Cary, NC 27513 USA               *;
*                                                                            *;
* Licensed under the Apache License, Version 2.0 (the "License");            *;
* you may not use this file except in compliance with the License.           *;
* You may obtain a copy of the License at                                    *;
*                                                                            *;
*   http://www.apache.org/licenses/LICENSE-2.0                               *;
*                                                                            *;
* Unless required by applicable law or agreed to in writing, software        *;
* distributed under the License is distributed on an "AS IS" BASIS,          *;
* WITHOUT WARRANTIES OR CONDITIONS OF ANY KIND, either express or implied.   *;
* See the License for the specific language governing permissions and        *;
* limitations under the License.                                             *;
******************************************************************************;

******************************************************************************;
* SECTION 2 - SAS data sets and other data structures                        *;
******************************************************************************;

* define git_repo_dir macro variable; 
%let git_repo_dir = /folders/myshortcuts/SAS_GWU_examples; 

* set directory separator; 
%let dsep = /; /* comment line for windows (but not for unversity edition) */
* %let dsep = \; /* uncomment line for windows */

*** sas data sets ************************************************************;

* the sas data set is the primary data structure in the SAS language;
* now you will make one called scratch;

%let n_rows = 1000; /* define number of rows */
%let n_vars = 5;    /* define number of character and numeric variables */

* options mprint; /* to see the macro variables resolve uncomment this line */
data scratch;

	/* since you did not specify a permanent library on the data statement */
	/* the scratch set will be created in the temporary library work */
	/* it will be deleted when you leave SAS */

	/* SAS is strongly typed - it is safest to declare variables */
	/* using a length statement - especially for character variables */
	/* $ denotes a character variable */

	/* arrays are a data structure that can exist during the data step */
	/* they are a reference to a group of variables */
	/* horizontally across a data set */
	/* $ denotes a character array */
	/* do loops are often used in conjuction with arrays */
	/* SAS arrays are indexed from 1 */

	/* a key is a variable with a unique value for each row */

	/* mod() is the modulo function */
	/* the eval() macro function performs math operations */
	/* before text substitution */

	/* the drop statement removes variables from the output data set */

	/* since you are not reading from a pre-existing data set */
	/* you must output rows explicitly using the output statement */

	length key 8 char1-char&n_vars $ 8 numeric1-numeric&n_vars 8;
	text_draw = 'AAAAAAAA BBBBBBBB CCCCCCCC DDDDDDDD EEEEEEEE FFFFFFFF GGGGGGGG';
	array c $ char1-char&n_vars;
	array n numeric1-numeric&n_vars;
	do i=1 to &n_rows;
		key = i;
		do j=1 to %eval(&n_vars);
			/* assign a random value from text_draw */
			/* to each element of the array c */
			c[j] = scan(text_draw, floor(7*ranuni(12345)+1), ' ');
			/* assign a random numeric value to each element of the n array */
			/* ranuni() requires a seed value */
			n[j] = ranuni(%eval(&n_rows*&n_vars));
		end;
	  if mod(i, %eval(&n_rows/10)) = 0 then put 'Processing line ' i '...';
		drop i j text_draw;
		output;
	end;
	put 'Done.';
run;

*** basic data analysis ******************************************************;

* use proc contents to understand basic information about a data set;
proc contents data=scratch;
run;

* use proc freq to analyze categorical data;
proc freq
	/* nlevels counts the discreet levels in each variable */
	/* the colon operator expands to include variable names with prefix char */
	data=scratch nlevels;
	/* request frequency bar charts for each variable */
	tables char: / plots=freqplot(type=bar);
run;

* use proc univariate to analyze numeric data;
proc univariate
	data=scratch;
	/* request univariate statistics for variables names with prefix numeric */
	var numeric:;
	/* request histograms for the same variables */
	histogram numeric:;
	/* inset basic statistics on the histograms */
	inset min max mean / position=ne;
run;

*** basic data manipulation **************************************************;

* subsetting columns;
* create scratch2 set;
data scratch2;
	/* set statement reads from a pre-existing data set */
	/* no output statement is required */
	/* using data set options: keep, drop, etc. is often more efficient than */
	/* corresponding data step statements */
	/* there are MANY other ways to subset columns ... */
	set scratch(keep=key char1 numeric1);
run;

* subsetting and modifying columns;
* select two columns and modify them with data step functions;
* overwrite scratch2 set;
data scratch2;
	/* use length statement to ensure correct length of trans_char1 */
	/* the lag function saves the value from the row above */
	/* lag will create a numeric missing value in the first row */
	/* tranwrd finds and replaces character values */
	set scratch(keep=key char1 numeric1
		rename=(char1=new_char1 numeric1=new_numeric1));
 	length trans_char1 $8;
	lag_numeric1 = lag(new_numeric1);
	trans_char1 = tranwrd(new_char1, 'GGGGGGGG', 'foo');
run;

* subsetting rows;
* select only the first row and impute the missing value;
* create scratch3 set;
data scratch3;
	/* the where data set option can subset rows of data sets */
	/* there are MANY other ways to do this ... */
	set scratch2 (where=(key=1));
	lag_numeric1 = 0;
run;

* subsetting rows;
* remove the problematic first row containing the missing value;
* from scratch2 set;
data scratch2;
	set scratch2;
	if key > 1;
run;

* combining data sets top-to-bottom;
* add scratch3 to the bottom of scratch2;
proc append
	base=scratch2  /* proc append does not read the base set */
	data=scratch3; /* for performance reasons base set should be largest */
run;

* sorting data sets;
* sort scratch2 in place;
proc sort
	data=scratch2;
	by key; /* you must specificy a variables to sort by */
run;

* sorting data sets;
* create the new scratch4 set;
proc sort
	data=scratch2
	out=scratch4; /* specifying an out set creates a new data set */
	by new_char1 new_numeric1; /* you can sort by many variables */
run;

* combining data sets side-by-side;
* to create scratch5 set;
* create messy scratch5 set;
data scratch5;
	/* merge simply attaches two or more data sets together side-by-side*/
	/* it overwrites common variables - be careful */
	merge scratch scratch4;
run;

* combining data sets side-by-side;
* join columns to scratch from scratch2 when key variable matches;
* to create scratch6 correctly;
data scratch6;
	/* merging with a by variable is safer */
	/* it requires that both sets be sorted */
	/* then rows are matched when key values are equal */
	/* very similar to SQL join */
	merge scratch scratch2;
	by key;
run;

* don't forget PROC SQL;
* nearly all common SQL statements and functions are supported by PROC SQL;
* join columns to scratch from scratch2 when key variable matches;
* to create scratch7 correctly;
proc sql noprint; /* noprint suppresses procedure output */
	create table scratch7 as
	select *
	from scratch
	join scratch2
	on scratch.key = scratch2.key;
quit;

* comparing data sets;
* results from data step merge with by variable and PROC SQL join;
* should be equal;
proc compare base=scratch6 compare=scratch7;
run;

* export data set;
* to create a csv file;
proc export
	data=scratch7
	/* create scratch7.csv in working directory */
	/* . ends a macro variable name */
	outfile="&git_repo_dir.&dsep.scratch7.csv"
	/* create a csv */
	dbms=csv
	/* replace an existing file with that name */
	replace;
run;

* import data set;
* from the csv file;
* to overwrite scratch7 set;
proc import
	/* import from scratch7.csv */
	datafile="&git_repo_dir.&dsep.scratch7.csv"
	/* create a sas table in the work library */
	out=scratch7
	/* from a csv file */
	dbms=csv
	/* replace an existing data set with that name */
	replace;
run;

* results from export/import should match previously created scratch6 set;
proc compare
	base=scratch6
	compare=scratch7
	criterion=0.000001; /* we can except tiny differences */
run;

* by group processing;
* by variables can be used in the data step;
* the data set must be sorted;
* create scratch8 summary set;
data scratch8;
	set scratch4;
	by new_char1 new_numeric1;
	retain count 0; /* retained variables are remembered from row-to-row */
	if last.new_char1 then do; /* first. and last. are used with by vars */
		count + 1; /* shorthand to increment a retained variable */
		output; /* output the last row of a sorted by group */
	end;
run;

* by group processing;
* by variables can be used efficiently in most procedures;
* the data set must be sorted;
proc univariate
	data=scratch4;
	var lag_numeric1;
	histogram lag_numeric1;
	inset min max mean / position=ne;
	by new_char1;
run;

*** hashes in sas ************************************************************;

* hash objects are an in-memory data structure in SAS;
* they have keys and data;
* and several simple functions for data manipulation;
* one common use of hash objects is to join a very narrow data set;
* onto a wider data set;
data scratch9;

	/* declare a hash with the name h */
	/* define the key and data elements of h */
	/* use a do until loop to load */
	/* the narrower data set scratch2 into h */

	/* end creates a temporary variable that =1 at the last */
	/* row of a data set */

	/* use a do until loop to process the rows of scratch */
	/* when the key of h matches the key variable in scratch */
	/* output the data h and the variables in scratch */

	declare hash h();
	h.defineKey('key');
	h.defineData('new_char1', 'new_numeric1', 'trans_char1', 'lag_numeric1');
	h.defineDone();
	do until(eof1);
		set scratch2 end=eof1;
		_rc=h.add();
		if _rc then do;
			put 'ERROR: hash load on line ' _n_= '.';
			abort;
		end;
	end;
	do until(eof2);
		set scratch end=eof2;
		_rc = h.find();
		if _rc then do;
			put 'ERROR: Matching key not found for line ' _n_= '.';
			abort;
		end;
		output;
	end;
	drop _rc;
run;

* hash join should match earlier join results;
proc compare base=scratch6 compare=scratch9; run;

*** delimited lists in sas ***************************************************;

* PROC SQL is probably the easiest way to create a list;
* but the list is limited to the maximum length of a macro variable;
proc sql noprint;
	/* use separated by statements to define list delimiter */
	select name into: list1 separated by ' '
	from sashelp.class;
quit;
%put &list1;

* a macro variable array takes more effort to create;
* but is limited in length only by the amount RAM allocated to SAS;
data _null_;
	set sashelp.class(keep=name) end=eof;

	/* call symput creates macro variables */
	/* call symput('macro_var_name', 'macro_var_value') */
	/* _n_ is the system row count variable */
	/* the || operator concatenates strings */

	/* the line directly below creates a macro variable */
	/* with the name list_element<_n_> */
	/* and with the value of the variable name in the current row */
	/* strip() removes whitespace */
	call symput('list_element'||strip(put(_n_, best.)), name);
	/* it is also convenient to know the number of elements in the list */
	/* the variable eof will be true when the end of the data set is reached */
	if eof then call symput('list_length', strip(put(_n_, best.)));
run;
%put _user_; /* see all user-created macro variables */
%put &list_element3;
%put &list_length;
* macro functions are defined using the macro statements: macro and mend;
* other macro statements define the flow of the macro function;
* a macro function using double amperstand notation (&&):
* can be used to cycle through the list elements created above;
%macro resolve_list;
	%do i=1 %to &list_length;
		%put &&list_element&i;
	%end;
%mend;
%resolve_list;

* you can use dynamic programming techniques;
* to create a macro that stores a list as a macro;
* this allows you to store lists of massive lengths;
* macro functions can have keyword or locational parameters;
%macro make_list(name=list2, metadata=, key=name, nummacro=list_length2);

	/* name - name of the macro to contain the list of variables */
	/* metadata - name of the data set containing the key variable */
	/* key - name of the variable containing the list elements */
	/* nummacro - name of a global macro variable that resolves to */
	/*            the length of the list */

	/* define a binary file known as a macro source file */
	/* use a _null_ data step to write the text that defines a macro */
	/* to this macro source file */
	/* the defined macro will simply resolve to the values of the key variable */

	filename lstmacro catalog 'work.emutil.macro.source';
	data _null_;
		length _line $80;
		retain _line;
		set &metadata end=eof;
		file lstmacro;
		if _n_=1 then do;
			/* start defining the macro */
			_string = "%"!!"macro &name;";
			put _string;
		end;
		/* check that the line of list elements has not become too long */
		if (length(_line) + length(trim(&key))+ 1 < 80) then do;
			/* if not, add key to the list elements */
			_line = trim(_line)!!' '!!trim(&key);
			/* if at the end of the data set */
			if eof then do;
				/* write any remaining list elements */
				put _line;
				/* end the macro */
				_string = "%"!!"mend &name;";
				put _string;
				/* define a macro variable holding the list length */
				%if (&nummacro ne ) %then %do;
					_string = strip(put(_N_, best.));
					put "%" "global &nummacro;";
					put "%" "let &nummacro = " _string ";";
				%end;
				/* exit data step if end of set is reached */
				stop;
			end;
		end;
		else do;
			/* the line is too long, write all list elements to the macro */
			put _line;
			/* there is at least one more row in the data set */
			_line = trim(&key);
			/* if at the end of the data set */
			if eof then do;
				/* write any remaining list elements */
				put _line;
				/* end the macro */
				_string = "%"!!"mend &name;";
				put _string;
			end;
		end;
		/* define a macro variable holding the list length */
		if eof then do;
			_string = strip(put(_N_, best.));
			%if (&nummacro ne ) %then %do;
				put "%" "global &nummacro;";
				put "%" "let &nummacro = " _string ";";
			%end;
		end;
	run;

	/* compile the generated macro */
	%inc lstmacro;
	filename lstmacro;

%mend make_list;

* define a list and write it to the log;
%make_list(metadata=sashelp.class);
%put %list2;
%put &list_length2;
