******************************************************************************;
* Copyright (c) 2016 by SAS Institute Inc., Cary, NC 27513 USA               *;
*                                                                            *;
* Licensed under the Apache License, Version 2.0 (the "License");            *;
* you may not use this file except in compliance with the License.           *;
* You may obtain a copy of the License at                                    *;
*                                                                            *;
*   http://www.apache.org/licenses/LICENSE-2.0                               *;
*                                                                            *;
* Unless required by applicable law or agreed to in writing, software        *;
* distributed under the License is distributed on an "AS IS" BASIS,          *;
* WITHOUT WARRANTIES OR CONDITIONS OF ANY KIND, either express or implied.   *;
* See the License for the specific language governing permissions and        *;
* limitations under the License.                                             *;
******************************************************************************;

******************************************************************************;
* example data is the AT&T face database (formerly ORL face database)        *;
* by AT&T Laboratories Cambridge                                             *;
* http://www.cl.cam.ac.uk/research/dtg/attarchive/facedatabase.html          *;
******************************************************************************;

******************************************************************************;
* an educational facial recognition example using eigenfaces:                *;
* - the AT&T face database is split into train and test sets                 *;
* - one face from each person is assigned to the train set and to the        *;
*   test set                                                                 *;
* - the train set is normalized and projected onto NUM_EIGENFACES            *;
*   eigenvectors to create eigenfaces                                        *;
* - linear regression is then used to represented the train set as a linear  *;
*   combination of the eigenfaces                                            *;
* - the test set is normalized and projected into NUM_EIGENFACES             *;
*   eigenvectors to create eigenfaces                                        *;
* - linear regression is then used to represented the test set as a linear   *;
*   combination of the eigenfaces                                            *;
* - to test the performance of the model the distance is calculated between  *;
*   each corresponding train and test face using in reduced space of the     *;
*   eigenfaces                                                               *;
*                                                                            *;
* instructions:                                                              *;
* - user set GIT_REPO_DIR to downloaded or cloned SAS_UE_SGF2016_faces       *;
*   directory containg faces.sas7bdat                                        *;
******************************************************************************;

*** TODO: user set global constants ******************************************;

%let GIT_REPO_DIR = C:\workspace\enlighten-apply\SAS_UE_SGF2016_faces;

*** system options;

%let NUM_EIGENFACES = 6;
libname faces "&git_repo_dir";

*** veiw_faces ***************************************************************;
* a macro used to veiw face images;
* dim - the square side length of the input image;
* ds - SAS data set containing square images as row vectors;
* n - number of images to render;
* prefix - prefix name for variables containing pixel intensities;
* title - title for all rendered images;

%macro view_faces(dim=, ds=, n=, prefix=, title=);

  ods listing;
  ods listing gpath="&git_repo_dir";

  * define gtl template;
  ods path show;
  ods path(prepend) work.templat(update);
  proc template;
    define statgraph contour;
      dynamic _title;
      begingraph;
        entrytitle _title;
        layout overlayequated / equatetype=square
          commonaxisopts=(viewmin=0 viewmax=%eval(&dim.-1)
                          tickvaluelist=(0 %eval(&dim./2) &dim.))
          xaxisopts=(offsetmin=0 offsetmax=0)
          yaxisopts=(offsetmin=0 offsetmax=0);
          contourplotparm x=x y=y z=z /
            contourtype=gradient nlevels=255
            colormodel=twocolorramp;
        endlayout;
      endgraph;
    end;
  run;

  * create random sample of images;
  proc surveyselect
    data=&ds
    out=_samp
    method=srs
    n=&n
    noprint;
  run;

  * convert sample images to contours;
  data _xyz;
    set _samp;
    array pixels &prefix.:;
    pic_ID = _n_;
    do j=1 to %eval(&dim*&dim);
      x = (j-&dim*floor((j-1)/&dim))-1;
      y = (%eval(&dim+1)-ceil(j/&dim))-1;
      z = 255-pixels[j];
      output;
      keep pic_ID x y z;
    end;
  run;

  * render sample images;
  proc sgrender data=_xyz template=contour;
    dynamic _title="&title";
    by pic_ID;
  run;

%mend;

*** show a few input faces ***************************************************;

%view_faces(
  dim=64,
  ds=faces.faces,
  n=3,
  prefix=feature,
  title=Input Face Image
);

*** data preparation *********************************************************;

* create a train and test set;
* there are 10 images of each face in the example data;
* take the first 9 images as the train data;
* and the last image as the test data;
data allfaces;
  length id 8;
  set faces.faces;
  id = ceil(_n_/10);
run;
data trainfaces testfaces;
  set allfaces;
  by id;
  if first.id then output trainfaces;
  if last.id then output testfaces;
run;

* normalize each row vector (e.g. face vector);
* by subtracting the average of all rows;
proc means data=trainfaces noprint nway;
  var feature1-feature4096;
  output out=averageface(drop=_TYPE_ _FREQ_) mean=; /* average values */
run;
data averageface;
  length id 8;
  set averageface;
  id = 0;
run;
data normalizedtrain;
  set averageface trainfaces;
  array aveface avefeature1-avefeature4096;
  array normalface normalface1-normalface4096;
  array feature feature1-feature4096;
  retain aveface;
  if id = 0 then do;
    do i=1 to 4096;
      aveface[i] = feature[i];
    end;
  end;
  do i=1 to 4096;
    normalface[i] = feature[i]-aveface[i];
  end;
  drop feature1-feature4096 avefeature1-avefeature4096 i;
  if id = 0 then delete;
  drop id;
run;

* show the average face;
%view_faces(
  dim=64,
  ds=averageface,
  n=1,
  prefix=feature,
  title=Average Face Image
);

*** calculate principal components *******************************************;

proc iml;

  * read train data from SAS data set into a PROC IML matrix;
  use normalizedtrain;
  read all var _ALL_ into A [colname=varnames];
  close normalizedtrain;

  * find eigenvectors of the A matrix;
  M = A * A`;
  call eigen(eigenvalues, eigenvectors, M);

  * project train faces onto the first NUM_EIGENFACES eigenvectors;
  * these vectors are known as eigenfaces;
  * eigenfaces can be thought of as representative faces;
  pc = A`*eigenvectors[,1:&NUM_EIGENFACES.];

  * create a SAS data set named princomps that contains;
  * the projection onto the eigenfaces;
  pcnames = "pc1":"pc&NUM_EIGENFACES.";
  create princomps from pc[colname=pcnames];
  append from pc;
  close princomps;

  * create a SAS data set named _pct that contains;
  * the eigenfaces for display as row vectors;
  _pct = pc`;
  featurenames = "feature1":"feature4096";
  create _pct from _pct[colname=featurenames];
  append from _pct;
  close _pct;

  * create a SAS data set named facecolvecs from the A-transpose matrix;
  * that contains the train faces as column vectors;
  facenames = "face1":"face360";
  atranpose = A`;
  create facecolvecs from atranpose[colname=facenames];
  append from Atranpose;
  close facecolvecs;

quit;

* show a few eigenfaces;
%view_faces(
  dim=64,
  ds=_pct,
  n=6,
  prefix=feature,
  title=Eigenface Image
);
