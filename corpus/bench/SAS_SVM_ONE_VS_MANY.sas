/******************************************************************************
Copyright (c) 2017 by SAS Institute Inc., Cary, NC 27513 USA
Licensed under the Apache License, Version 2.0 (the "License");
you may not use this file except in compliance with the License.
You may obtain a copy of the License at
http://www.apache.org/licenses/LICENSE-2.0
Unless required by applicable law or agreed to in writing, software
distributed under the License is distributed on an "AS IS" BASIS,
WITHOUT WARRANTIES OR CONDITIONS OF ANY KIND, either express or implied.
See the License for the specific language governing permissions and
limitations under the License.
******************************************************************************/

******************************************************************************;
* SAS ROUTINES FOR TRAINING AND SCORING DATA THAT HAS MULTIPLE TARGET LEVELS *;
* USING THE ONE-VS-ALL APPROACH IN CONJUNCTION WITH SUPPORT VECTOR MACHINES  *;
*                                                                            *;
* STEPS:                                                                     *;
* CREATE A MACRO FOR TRAINING                                                *;
*     MODIFY INPUT DATA TO HAVE A TARGET COLUMN FOR EACH LEVEL OF THE TARGET *;
*     RUN AN SVM MODEL FOR EACH TARGET COLUMN AND SAVE THE SCORING CODE      *;
*     CREATE A TABLE THAT CONTAINS THE NAME OF THE SAVED SCORING CODE FILES  *;
* CREATE A MACRO FOR SCORING                                                 *;
*     RUN EACH SCORING CODE FILE ON THE SCORE DATA                           *;
*     ASSIGN THE TARGET BASED UPON THE HIGHEST PROBABILITY                   *;
*     CREATE A CONFUSION MATRIX FOR RESULTS VISUALIZATION                    *;
* SETUP TRAINING AND SCORING RUNS                                            *;
*     SETUP TRAINING AND SCORING DATA                                        *;
*     SETUP INPUT VARIABLES AND PARAMETERS                                   *;
*                                                                            *;
* FOR FURTHER INFORMATION ON ONE-VS-ALL AND OTHER MULTICLASS SVM APPROACHES: *;
* HSU, CHIH-WEI AND LIN, CHIH-JEN (2002). "A COMPARISON OF METHODS FOR       *;
* MULTICLASS SUPPORT VECTOR MACHINES." IEEE TRANSACTIONS OF NEURAL NETWORKS. *;
******************************************************************************;




******************************************************************************;
* BASIC SYSTEM AND METADATA SETUP *;
******************************************************************************; 
*** THE FOLLOWING CODE CREATES SEVERAL SAS DATA SETS AND SOME FILES;
*** TO ENSURE THAT NOTHING IS OVERWRITTEN, PLEASE CREATE A NEW DIRECTORY;
***     OR POINT TO AN EXISTING EMPTY DIRECTORY;
*** SET THE OUTPUT DIRECTORY BELOW;
%let OutputDir = U:\Demo\SGF2017\;

x cd "&OutputDir";
libname l "&OutputDir";



******************************************************************************;
* TRAINING MACRO                                                             *;
******************************************************************************; 
%macro SAS_SVM_ONE_VS_ALL_TRAIN();

*** SEPARATE OUT THE TARGET FOR INFORMATION GATHERING PURPOSES;
data l.TargetOnly;
    set &InputData;
    keep &Target;
    if MISSING(&Target) then delete;
run;

proc contents data = l.TargetOnly out=l.TType(keep = type);
run;

data _NULL_;
    set l.TType;
    call symput("TargetType", type);
run;

*** GET THE NUMBER OF LEVELS OF THE TARGET;
proc freq data=l.TargetOnly nlevels;
    ods output nlevels=l.TargetNLevels OneWayFreqs=l.TargetLevels;
run;

*** CREATE A VARIABLE, n, THAT IS THE NUMBER OF LEVELS OF THE TARGET;
data _NULL_;
    set l.TargetNLevels;
    call symput("n", left(trim(nlevels)));
run;

*** CREATE MACRO VARIABLES FOR EACH LEVEL OF THE TARGET;
data _NULL_;
    set l.TargetLevels;
    i = _N_;
    call symput("level"||left(trim(i)), trim(left(right(&Target.))));
run;

*** CREATE A COLUMN FOR EACH LEVEL OF THE TARGET;
*** THE VALUE OF THE COLUMN IS 1 IF THE TARGET IS THAT LEVEL, 0 OTHERWISE;
data l.ModifiedInput;
    set &InputData;
    _MY_ID_ = _N_;
    %do i=1 %to &n;
        %if (&TargetType = 1) %then %do;
		    if MISSING(&Target) then do;
			    &Target.&&level&i = .;
			end;
            else if (&Target = &&level&i) then do;
                &Target.&&level&i = 1;
            end;
            else do;
                &Target.&&level&i = 0;
            end;
        %end;
        %else %if (&TargetType = 2) %then %do;
            if MISSING(&Target) then do;
			    &Target.&&level&i = .;
			end;
            else if (&Target = "&&level&i") then do;
                &Target.&&level&i = 1;
            end;
            else do;
                &Target.&&level&i = 0;
            end;
        %end;
    %end;
run;

%let datetime_start = %sysfunc(TIME()) ;
%put START TIME: %sysfunc(datetime(),datetime14.);

*** RUN AN SVM FOR EACH TARGET. ALSO SAVE THE SCORING CODE FOR EACH SVM;
%do i=1 %to &n;
    %let Target&i = &Target.&&level&i;

    data _NULL_;
        length svmcode $2000;
        svmcode  = "&OutputDir"!!"svmcode"!!"&i"!!".sas";
        call symput("svmcode"||left(trim(&i)), trim(svmcode));
    run;

    proc hpsvm data = l.ModifiedInput tolerance = &Tolerance c = &C maxiter = &Maxiter nomiss;
        target &&Target&i;
        %if &INPUT_INT_NUM > 0 %then %do;
            input &INPUT_INT / level = interval;
        %end;
        %if &INPUT_NOM_NUM > 0 %then %do;
            input &INPUT_NOM / level = nominal;
        %end;
        *kernel linear;
        kernel polynomial / degree = 2;
        id _MY_ID_ &Target;
        code file = "&&svmcode&i";
    run;
%end;

*** THIS TABLE LISTS ALL OF THE SVM SCORING FILES;
data l.CodeInfoTable;
    length code $2000;
    %do i=1 %to &n;
        code = "&&svmcode&i";
        output;
    %end;
run;

%put END TIME: %sysfunc(datetime(),datetime14.);
%put ONE-VS-ALL TRAINING TIME:  %sysfunc(putn(%sysevalf(%sysfunc(TIME())-&datetime_start.),mmss.)) (mm:ss) ;

%mend SAS_SVM_ONE_VS_ALL_TRAIN;
******************************************************************************;
* END TRAINING MACRO                                                         *;
******************************************************************************;



******************************************************************************;
* SCORING MACRO                                                              *;
******************************************************************************;
*** THIS MACRO ALLOWS FOR SCORING NEW DATA (OR THE TRAINING DATA);
%macro SAS_SVM_ONE_VS_ALL_SCORE();

%let datetime_start = %sysfunc(TIME()) ;
%put START TIME: %sysfunc(datetime(),datetime14.);

*** RECORD THE TARGET TYPE: 1 = NUMERIC, 2 = CHARACTER;
data _NULL_;
    set l.TType;
    call symput("TargetType", type);
run;

*** CREATE A VARIABLE, n, THAT IS THE NUMBER OF LEVELS OF THE TARGET;
data _NULL_;
    set l.TargetNLevels;
    call symput("n", left(trim(nlevels)));
run;

*** CREATE MACRO VARIABLES FOR EACH LEVEL OF THE TARGET;
data _NULL_;
    set l.TargetLevels;
    i = _N_;
    call symput("level"||left(trim(i)), trim(left(right(&Target.))));
run;

*** READ THE CODE INFO TABLE AND CREATE MACRO VARIABLES FOR EACH CODE FILE;
data _NULL_;
    set l.CodeInfoTable;
    i = _N_;
    call symput("svmcode"||left(trim(i)), trim(left(right(code))));
run;

%do i=1 %to &n;
    %let Target&i = &Target.&&level&i;
%end;

*** SCORE THE DATA USING EACH SCORE CODE;
*** IN TOTAL, SCORE A NUMBER OF TIMES EQUAL TO THE NUMBER OF LEVELS OF THE TARGET;
*** FINALLY ASSIGN PREDICTED VALUE BASED UPON WHICH TARGET LEVEL HAS THE HIGHEST PROBABILITY;
%MakeScoredOneVsAll();

*** CREATE A CONFUSION MATRIX FOR RESULTS VIEWING PURPOSES;
%MakeConfusion();

%put END TIME: %sysfunc(datetime(),datetime14.);
%put ONE-VS-ALL SCORING TIME:  %sysfunc(putn(%sysevalf(%sysfunc(TIME())-&datetime_start.),mmss.)) (mm:ss) ;

%mend SAS_SVM_ONE_VS_ALL_SCORE;
******************************************************************************;
* END SCORING MACRO                                                          *;
******************************************************************************;



******************************************************************************;
* UTILITY MACROS                                                             *;
******************************************************************************;
*** MACRO TO MAKE THE SCORED OUTPUT FOR ONE_VS_ALL;
%macro MakeScoredOneVsAll();
data l.ScoredOutput;
    set &ScoreData;
    %if (&TargetType = 2) %then %do;
        length I_&Target $ &TargetLength;
    %end;
    %do i=1 %to &n;
        %inc "&&svmcode&i";
    %end;
    keep 
    %do i=1 %to &n;
        P_&&Target&i..1
    %end;    
    %if (&ID_NUM > 0) %then %do;
        &ID
    %end;    
    I_&Target &Target;
    _P_ = 0;
    %do i=1 %to &n;
        %if (&TargetType = 1) %then %do;
            if (P_&&Target&i..1 > _P_) then do;
                _P_ = P_&&Target&i..1;
                I_&Target = &&level&i;
            end;
        %end;
        %else %if (&TargetType = 2) %then %do;
            if (P_&&Target&i..1 > _P_) then do;
                _P_ = P_&&Target&i..1;
                I_&Target = "&&level&i";
            end;
        %end;
    %end;
run;
%mend MakeScoredOneVsAll;



*** MACRO TO MAKE THE CONFUSION MATRIX;
%macro MakeConfusion();
data l.ConfusionMatrix _NULL_;
    set l.ScoredOutput end=last;
	%if (&TargetType = 2) %then %do;
	    length From_&Target $ &TargetLength;
	%end;
    retain
    %do i=1 %to &n;
        %do j=1 %to &n;
            temp&i._&j 
        %end;
    %end;
    0;
    %if (&TargetType = 1) %then %do;
        %do i=1 %to &n;
            if (&Target = &&level&i) then do;
                %do j=1 %to &n;
                    if (I_&Target = &&level&j) then do;
                        temp&i._&j = temp&i._&j+1;
                    end;
                %end;
            end;
        %end;
        if (last) then do;
            %do i=1 %to &n;
                From_&Target = &&level&i;
                %do j=1 %to &n;
                    To_&Target._&&level&j = temp&i._&j;
                %end;
                keep From_&Target
                %do j=1 %to &n;
                    To_&Target._&&level&j 
                %end;
                ;
                output l.ConfusionMatrix;
            %end;
        end;
    %end;
    %else %if (&TargetType = 2) %then %do;
        %do i=1 %to &n;
            if (&Target = "&&level&i") then do;
                %do j=1 %to &n;
                    if (I_&Target = "&&level&j") then do;
                        temp&i._&j = temp&i._&j+1;
                    end;
                %end;
            end;
        %end;
        if (last) then do;
            %do i=1 %to &n;
                From_&Target = "&&level&i";
                %do j=1 %to &n;
                    To_&Target._&&level&j = temp&i._&j;
                %end;
                keep From_&Target
                %do j=1 %to &n;
                    To_&Target._&&level&j 
                %end;
                ;
                output l.ConfusionMatrix;
            %end;
        end;
    %end;
run;
%mend MakeConfusion;
******************************************************************************;
* END UTILITY MACROS                                                         *;
******************************************************************************;




******************************************************************************;
* RUN THE TRAINING AND SCORING MACROS                                        *;
******************************************************************************; 
*** DATA SETUP;

*** SET THE TARGET VARIABLE;
*** ALSO SET THE INPUT AND SCORE DATA SETS;
*** YOU CAN CHANGE THE SCORE DATA SET EVERY TIME YOU WANT TO SCORE A NEW DATA SET;
%let Target    = Species; *CASE SENSITIVE;
%let InputData = sashelp.iris;
%let ScoreData = sashelp.iris;

*** SHOW POSSIBLE INPUT VARIABLES FOR CONVENIENCE;
proc contents data =&InputData out=names (keep = name type length);
run;
data names;
    set names;
    if name = "&Target" then do;
        call symput("TargetLength", length);
        delete;
    end;
run;

*** MANUALLY ADD NAMES TO INTERVAL OR NOMINAL TYPE DEPENDING ON USE CASE ***;
*** ID VARIABLES ARE SAVED FROM THE INPUT DATA TO THE SCORED OUTPUT DATA ***;

%let ID        = PetalLength PetalWidth SepalLength SepalWidth;
%let INPUT_NOM = ;
%let INPUT_INT = PetalLength PetalWidth SepalLength SepalWidth;
%let ID_NUM        = 4;
%let INPUT_NOM_NUM = 0;
%let INPUT_INT_NUM = 4;

*** HPSVM OPTIONS FOR THE USER (OPTIONAL);
%let Maxiter   = 25;
%let Tolerance = 0.000001;
%let C         = 1;


%SAS_SVM_ONE_VS_ALL_TRAIN();


*** IF YOU HAVE ALREADY RUN TRAIN, YOU CAN RUN SCORING AS MANY TIMES AS YOU WANT;
*** WITH NEW DATA, PROVIDED THAT THE PROPER TRAINING FILES STILL EXIST IN THE OUTPUT DIRECTORY;

%SAS_SVM_ONE_VS_ALL_SCORE();