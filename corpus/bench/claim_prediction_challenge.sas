******************************************************************************;
* Copyright (c) 2015 by SAS Institute Inc., Cary, NC 27513 USA               *;
*                                                                            *;
* Licensed under the Apache License, Version 2.0 (the "License");            *;
* you may not use this file except in compliance with the License.           *;
* You may obtain a copy of the License at                                    *;
*                                                                            *;
*   http://www.apache.org/licenses/LICENSE-2.0                               *;
*                                                                            *;
* Unless required by applicable law or agreed to in writing, software        *;
* distributed under the License is distributed on an "AS IS" BASIS,          *;
* WITHOUT WARRANTIES OR CONDITIONS OF ANY KIND, either express or implied.   *;
* See the License for the specific language governing permissions and        *;
* limitations under the License.                                             *;
******************************************************************************;

******************************************************************************;
* THIS CODE WILL NOT RUN OUTSIDE OF ENTERPRISE MINER !!!                     *;
*                                                                            *;
* VARIOUS SAS ROUTINES FOR CLAIMS PREDICTION DATA:                           *;
* GENERATE BINARY DUMMIES IN CODE NODE                                       *;
* CONVERT GENERATED BINARY DUMMIES TO INTERVAL ROLE                          *;
* CALCULATE CCC IN CODE NODE                                                 *;
* CALCULATE GAP STATISTIC IN OPEN SOURCE NODE                                *;
* CALCULATE ABC IN CODE NODE (SINGLE-MACHINE/SMP)                            *;
* CALCULATE ABC IN BASE SAS (DISTRIBUTED/MPP)                                *;
*                                                                            *;
* THE k-ESTIMATION CALCULATIONS FOLLOWED THIS WORKFLOW IN EM:                *;
* VARIABLE SELECTION -> IMPUTE NUMERIC AND CLASS ->                          *;
* REPLACE NUMERIC OUTLIERS -> BIN CLASS OUTLIERS -> STANDARDIZE INTERVAL ->  *;
* CREATE BINNARY DUMMIES FOR CLASS VARS IN CODE NODE (USE CODE BELOW) ->     *;
* REJECT CORRELATED WITH METADATA NODE ->                                    *;
* CONVERT ALL REMAINING INPUTS TO INTERVAL MEASUREMENT LEVEL                 *;
*                                                                            *;
* FOR GAP, ALL VARIABLES THAT ARE NOT INPUTS MUST BE PHYSICALLY DROPPED      *;
* YOU MAY ALSO NEED TO SAMPLE ... GAP WILL PROBABLY RUN BETTER ON *NIX       *;
*                                                                            *;
******************************************************************************;

*** GENERATES BINARY DUMMY VARIABLES FOR AN ENTERPRISE MINER INPUT SET *******;
*** ATTEMPTS TO USE VARIABLE LEVEL IN NEW NAME;

*** CONSTRUCT A SET CONTAINING BINARY VARIABLE METADATA;
proc dmdb data=&EM_IMPORT_DATA classout= &EM_NODEID._bin;
	class %EM_BINARY_INPUT;
run;

*** CREATE IF STATMENTS FOR NEW VARIABLES;
data &EM_NODEID._bin;
	set &EM_NODEID._bin end= eof;
	/* TAKES CARE OF NAME LENGHT RESTRICTIONS */
	length line $255 short_name clean_level $16 new_name $32;
	file "%sysfunc(pathname(WORK))&EM_DSEP.if_stmt_bin.sas";
	short_name= name;
	/* DO NOT MAKE PERFECTLY CORRELATED PAIRS OF BINARY VARS! */
	if mod(_n_,2)= 0 then do;
		if TYPE= 'N' then do;
			/* NEGATIVE NUMERICAL VARS */
			if level ge 0 then clean_level= strip(level);
			else clean_level= strip('m'||compress(level, ' -'));
			new_name= strip(compress(
				short_name||clean_level, ' '));
			line= 'if '||strip(name)||'= '||strip(level)||' then '
				||strip(new_name)||'= 1; else '
				||strip(new_name)||'= -1;';
			put line;
		end;
		else do;
			clean_level= translate(translate(strip(level),
				'_______________________________',
				' <,>.?/:;{}[]|\~%"!@#$%^&*()-+='), '_', "'");
			new_name= strip(compress(
				short_name||clean_level, ' '));
			line= 'if upcase('||strip(name)||")= '"||strip(level)
				||"' then "||strip(new_name)||'= 1; else '
				||strip(new_name)||'= -1;';
			put line;
		end;
	end;
run;

*** CONSTRUCT A SET CONTAINING CLASS VARIABLE METADATA;
proc dmdb data=&EM_IMPORT_DATA classout= &EM_NODEID._nom;
	class %EM_NOMINAL_INPUT %EM_ORDINAL_INPUT;
run;

*** CREATE IF STATMENTS FOR NEW VARIABLES;
data &EM_NODEID._nom;
	set &EM_NODEID._nom end= eof;
	length line $255 short_name clean_level $16 new_name $32;
	file "%sysfunc(pathname(WORK))&EM_DSEP.if_stmt_nom.sas";
	short_name= name;
	if TYPE= 'N' then do;
		if level ge 0 then clean_level= strip(level);
		else clean_level= strip('m'||compress(level, ' -'));
		new_name= strip(compress(short_name||clean_level, ' '));
		line= 'if '||strip(name)||'= '||strip(level)||' then '||
			strip(new_name)||'= 1; else '||strip(new_name)||
			'= -1;';
		put line;
	end;
	else do;
		clean_level= translate(translate(strip(level),
			'_______________________________',
			' <,>.?/:;{}[]|\~%"!@#$%^&*()-+='), '_', "'");
		new_name= strip(compress(short_name||clean_level, ' '));
		line= 'if '||strip(name)||"= '"||strip(level)||"' then "||
			strip(new_name)||'= 1; else '||strip(new_name)||
			'= -1;';
		put line;
	end;
run;

*** EXECUTE EXPANSION OF DUMMY VARIABLES;

data &EM_EXPORT_TRAIN; /* FINAL OUTPUT WITH ALL NEW VARIABLES */
	set &EM_IMPORT_DATA; /* INPUT DATA */
	%include "%sysfunc(pathname(WORK))&EM_DSEP.if_stmt_bin.sas";
	%include "%sysfunc(pathname(WORK))&EM_DSEP.if_stmt_nom.sas";
run;

*** CHANGE METADATA;
%macro update_metadata;

	*** REJECT BINARY;
	%if (&EM_NUM_BINARY_INPUT) %then %do;
		%do m= 1 %to &EM_NUM_BINARY_INPUT;
		%EM_METACHANGE(
			NAME= %scan(%EM_BINARY_INPUT, &m),
			ROLE= REJECTED
		);
		%end;
	%end;

	*** REJECT NOMINAL;
	%if (%eval(&EM_NUM_NOMINAL_INPUT + &EM_NUM_ORDINAL_INPUT)) %then %do;
		%do m= 1 %to %eval(&EM_NUM_NOMINAL_INPUT + &EM_NUM_ORDINAL_INPUT);
			%EM_METACHANGE(
				NAME= %scan(%EM_NOMINAL_INPUT %EM_ORDINAL_INPUT, &m),
				ROLE= REJECTED
			);
		%end;
	%end;

	data &EM_NODEID._newclass;
		set &EM_NODEID._bin;
		if mod(_n_,2)= 0 then output;
	run;
	proc append
		base= &EM_NODEID._newclass
		data= &EM_NODEID._nom
		force;
	run;

	*** UPDATE NEW VARIABLES;
	%EM_VARMACRO(
		NAME= EM_NEW_BIN_VAR,
		METADATA= &EM_NODEID._newclass,
		KEY= NEW_NAME,
		NUMMACRO= EM_NUM_NEW_BIN_VAR
	);

	%if (&EM_NUM_NEW_BIN_VAR) %then %do;
		%do m= 1 %to &EM_NUM_NEW_BIN_VAR;
			%EM_METACHANGE(
				NAME= %scan(%EM_NEW_BIN_VAR, &m),
				ROLE= INPUT,
				LEVEL= BINARY
			);
		%end;
	%end;

%mend;
%update_metadata;


*** AUTOMATICALLY CONVERT NEW, NUMERIC BINARIES TO INTERVAL ROLE *************;
*** FOR USE IN CLUSTERING;

%macro binary_to_interval;

	%if (&EM_NUM_BINARY_INPUT) %then %do;
		%do i= 1 %to &EM_NUM_BINARY_INPUT;
			%EM_METACHANGE(
				NAME= %scan(%EM_BINARY_INPUT, &i),
				LEVEL= INTERVAL
			);
		%end;
	%end;

%mend;
%binary_to_interval;

*** CALCULATE CCC ************************************************************;
*** TO BE RUN IN EM SAS CODE NODE;

%macro getCCC(maxK= 20);
	%do i= 1 %to &maxK;
		proc fastclus
			noprint
			data= &EM_IMPORT_DATA
			maxclusters= &i
			outstat= o(where= (_TYPE_= 'CCC')
				keep= _TYPE_ OVER_ALL);
			var %EM_INTERVAL_INPUT;
		run;
		proc append base= CCCOut data= o; run;
	%end;
	proc print data= CCCOut; run;
%mend;
%getCCC;

### CALCULATE GAP #############################################################
### TO BE RUN IN EM OPEN SOURCE INTEGRATION NODE
### INSTALL R CLUSTER PACKAGE IF NOT PREVIOUSLY INSTALLED
### RUN IN NONE OUTPUT MODE

library('cluster')
set.seed(12345)
gskmn <- clusGap(&EMR_IMPORT_DATA, FUN= kmeans, K.max= 20, B= 10)
gskmn

*** CALCULATE ABC (SINGLE-MACHINE/SMP) ***************************************;
*** TO BE RUN IN EM SAS CODE NODE;

proc hpclus
	data= &EM_IMPORT_DATA maxclusters= 20 maxiter= 15
		noc= abc(b= 25 minclusters= 1 align= none criterion= all);
	input %EM_INTERVAL_INPUT;
	/* FILL IN THREADS */
	performance nthreads= ;
run;

*** CALCULATE ABC (DISTRIBUTED/MPP) ******************************************;
*** TO BE RUN IN SAS;
*** ON PREPROCESSED DATA FROM EM FLOW;
*** GRIDLIB REFERS TO A DISTRIBUTED SAS LIBRARY;

proc hpclus
	data= gridlib.kaggleClaimPrediction maxclusters= 20 maxiter= 15
		noc= abc(b= 25 minclusters= 1 align= none criterion= all);
	input _ALL_;
	/* FILL IN GRID OPTIONS */
	performance nodes= ;
run;
