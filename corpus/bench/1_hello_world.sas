******************************************************************************;
* Copyright (c) 2015 by SAS Institute Inc., Cary, NC 27513 USA               *;
*                                                                            *;
* Licensed under the Apache License, Version 2.0 (the "License");            *;
* you may not use this file except in compliance with the License.           *;
* You may obtain a copy of the License at                                    *;
*                                                                            *;
*   http://www.apache.org/licenses/LICENSE-2.0                               *;
*                                                                            *;
* Unless required by applicable law or agreed to in writing, software        *;
* distributed under the License is distributed on an "AS IS" BASIS,          *;
* WITHOUT WARRANTIES OR CONDITIONS OF ANY KIND, either express or implied.   *;
* See the License for the specific language governing permissions and        *;
* limitations under the License.                                             *;
******************************************************************************;

******************************************************************************;
* SECTION 1: Hello World! - Standard SAS Output                              *;
******************************************************************************;

* the _null_ data step allows you to execute commands;
* or read a data set without creating a new data set;
data _null_;
	put 'Hello world!';
run;

* print the value of a variable to the log;
* VERY useful for debugging;
data _null_;
	x = 'Hello world!';
	put x;
	put x=;
run;

* file print writes to the open standard output;
* usually html or listing;
data _null_;
	file print;
	put 'Hello world!';
run;

* logging information levels;
* use these prefixes to print important information to the log;
data _null_;
	put 'NOTE: Hello world!';
	put 'WARNING: Hello world!';
	put 'ERROR: Hello world!';
run;

* you can also use the put macro statement;
%put Hello world!;
%put NOTE: Hello world!;
%put WARNING: Hello world!;
%put ERROR: Hello world!;

%put 'Hello world!'; /* macro variables are ALWAYS strings */

* the macro preprocessor resolves macro variables as text literals;
* before data step code is executed;
%let x = Hello world!;
%put &x;
%put '&x'; /* single quotes PREVENT macro resolution */
%put "&x"; /* double quotes ALLOW macro resolution */