******************************************************************************;
* Copyright (c) 2015 by SAS Institute Inc., Cary, NC 27513 USA               *;
*                                                                            *;
* Licensed under the Apache License, Version 2.0 (the "License");            *;
* you may not use this file except in compliance with the License.           *;
* You may obtain a copy of the License at                                    *;
*                                                                            *;
*   http://www.apache.org/licenses/LICENSE-2.0                               *;
*                                                                            *;
* Unless required by applicable law or agreed to in writing, software        *;
* distributed under the License is distributed on an "AS IS" BASIS,          *;
* WITHOUT WARRANTIES OR CONDITIONS OF ANY KIND, either express or implied.   *;
* See the License for the specific language governing permissions and        *;
* limitations under the License.                                             *;
******************************************************************************;

******************************************************************************;
* VARIOUS SAS ROUTINES FOR EMC ISRAEL CHALLENGE DATA:                        *;
* READ IN DATA FROM CSR FORMAT TO SAS COO FORMAT                             *;
* EXPAND SAS COO TO TRADITIONAL SAS SET                                      *;
* RANDOM FOREST CLASSIFIER                                                   *;
* MULTICLASS LOGARITHMIC LOSS                                                *;
* GENERATE SVD FEATURES                                                      *;
******************************************************************************;

*** SET WORKING DIRECTORY TO REPO DOWNLOADED FROM GIT;
%let git_repo_data_dir= ;
x "cd &git_repo_data_dir";

*** SET CPU COUNT;
%let cpu_count= ;

*** IMPORT TRAINING DATA TO CREATE COO FORMAT SAS DATA SET *******************;
*** FILL IN PATH;
%let train_file= 'emc_train_data.csv'; /* CSR FILE */
data values columns row_offsets;
	 infile "&train_file" recfm= f lrecl= 1 end= eof;
	 length accum $32;
	 retain accum ' ';                         *** TEXT VARIABLE FOR INPUT VALUES;
	 retain recnum 1;                          *** LINE OF INPUT FILE;
	 input x $char1.;                          *** PLACEHOLDER FOR ALL INPUT VALUES;
	 if x='0d'x then return;
	 delim= x in (',' '0a'x);
	 if not delim then accum= trimn(accum)||x; *** IF ITS NOT A DELIMITER IT'S A VALUE;
	 if not delim and not eof then return;     *** IF IT'S NOT EOF OR A DELIMITER, CONTINUE;
	 nvalues+1;                                *** INCREMENT NUMBER OF NON-ZERO VALUES;
	 value= input(accum,best32.);              *** CONVERT ACCUM TO NUMERIC VALUE;
	 accum= ' ';                               *** RESET TEXT VARIABLE FOR NEXT VALUE OF X;
	 if nvalues<10 then put recnum= value=;    *** OUTPUT A SMALL SAMPLE OF VALUES FOR LOG;
	 if recnum= 1 then do;                     *** SPECIAL CASE FOR FIRST ROW OF INPUT FILE;
	    if nvalues= 1 then call symputx('nrows',value);
	    if nvalues= 2 then call symputx('ncols',value);
	 end;
	 else if recnum= 2 then output values;     *** SAS DATA SET FOR NON-ZERO VALUES;
	 else if recnum= 3 then output columns;    *** SAS DATA SET FOR COLUMN INDEX;
	 else if recnum= 4 then output row_offsets;*** SAS DATA SET FOR ROW POINTER;
	 if x='0a'x or eof then do;                *** TRUE CARRIAGE RETURN OR EOF, PRINT TO LOG;
	    put recnum= nvalues=;
	    recnum+1;                              *** INCREMENT TO NEXT INPUT LINE;
	    nvalues= 0;                            *** RESET NVALUES;
	 end;
	 keep value;                               *** KEEP VALUES, NOT TEMP VARS;
run;

*** CREATE A COO FORMAT TABLE;
*** CONTAINS THE ROW NUMBER, COLUMN NUMBER AND VALUE;
*** ALL INFORMATION NECESSARY TO BUILD FULL TRAINING MATRIX OR JUST SELECTED FEATURES;
data final_coo(keep= rownum colnum value);
    set row_offsets(firstobs= 2) end= eof;        *** 2ND OBS IN ROW_OFFSETS TELLS WHERE ...;
    retain prev 0;                                *** TO STOP THE FIRST ROW IN FINAL;
    retain min_colnum 1e50 max_colnum 0;
    rownum+1;                                     *** INITIALIZE ROWNUM TO ONE;
    count= value-prev;                            *** INDEX FOR END OF ROW;
    prev = value;                                 *** INDEX FOR START OF ROW;
    do i=1 to count;
       set values;                                *** GET MATRIX VALUE;
       set columns (rename= (value= colnum));     *** GET COLUMN NUMBER;
       min_colnum= min(min_colnum, colnum);
       max_colnum= max(max_colnum, colnum);
       output;
    end;
    if eof then put _n_= min_colnum= max_colnum= "nrows=&nrows. ncols=&ncols.";
run;

*** EXPAND TO FULL (OR PARTIAL) TRAINING SET *********************************;

*** IMPORT TRAINING LABELS;
*** FILL IN PATH;
%let label_file= 'emc_train_labels.csv';
data target;
	length hkey 8;
	hkey= _n_;
	infile "&label_file" delimiter= ',' missover dsd lrecl= 32767 firstobs= 1;
	informat target best32. ;
	format target best12. ;
	input target;
	if _n_ <= 10 then put hkey= target=;
run;

*** EXPAND SUMMARY SET INTO FULL TRAINING MATRIX;
*** THIS WILL TAKE SOME TIME (LIKE MAYBE DAYS ... );
*** AND DISK SPACE (~800 GB ...);
*** BUILD THE FIRST 1000 LINES AND DO SOME BENCHMARKING WITH DIFFERENT ...;
*** BUFNO, BUFSIZE, CATCACHE, AND COMPRESS OPTIONS;
*** DO NOT ATTEMPT TO VIEW THE FULL (~800 GB, ~600K COLUMNS) TABLE IN THE GUI!!;

*** DATA STEP TO EXPAND ALL DATA;
*** (SLIGHTLY DIFFERENT);
*** CAN BE BUILT FROM COO AND TARGET SET WITHOUT INTERMEDIATE STEPS BELOW;
/*data emcIsrael&ncols; */
/*	set final_coo; */
/*	by rownum; */
/*	array tokens {&ncols} token1-token&ncols;      *** CREATE FULL NUMBER OF COLUMNS;  */
/*	retain tokens;				     */
/*	do i= 1 to &ncols;                             *** POPULATE ARRAY WITH EXPANDED VALUES; */
/*   		if i= (colnum+1) then tokens{i}= value;*** COLNUM STARTS AT 0; */
/*   		if tokens{i}= . then tokens{i}= 0; */
/*	end;*/
/*	keep rownum token1-token&ncols;  */
/*	if last.rownum then do;  */
/*	   output;                                     *** OUTPUT ONE ROW FOR EACH SET OF ROWNUMS; */
/*	   if mod(rownum, 1000)= 0 then putlog 'NOTE: currently processing record ' rownum;  */
/*	   do j = 1 to &ncols;                         *** REINITIALIZE ARRAY; */
/*	      tokens{j}= .;*/
/*	   end;*/
/*	end; */
/*run; */

*** REMEMBER, IN THE PAPER THIS WAS JUST AN EXAMPLE ABOUT A BIG CHUNK OF DATA ...;
*** TO AVOID HAVING TO EXPAND THAT ENTIRE BIG CHUNK OF DATA ...;
*** YOU CAN USE THE COO SET TO FIND THE COLUMNS YOU LIKE BEST ...;
*** SOMETHING LIKE ...;

*** RESET NCOLS;
%let ncols= 25;

proc sort
	data= final_coo
	out= _&ncols.highestTokenCount
	sortsize= MAX;
	by colnum;
run;
data _&ncols.highestTokenCount (keep= colnum count);
	set _&ncols.highestTokenCount (keep= colnum);
	by colnum;
	retain count 0;
	count+1;
	if last.colnum then do;
		output;
		count= 0;
	end;
run;
proc sort
	data= _&ncols.highestTokenCount
	out= _&ncols.highestTokenCount
	sortsize= MAX;
	by descending count;
run;
data _&ncols.highestTokenCount;
	set _&ncols.highestTokenCount(obs= &ncols);
run;
proc sql noprint;
	select colnum into :selected_feature_names separated by ' token'
	from _&ncols.highestTokenCount
	order by colnum;
	select colnum into :selected_feature_values separated by ', '
	from _&ncols.highestTokenCount
	order by colnum;
quit;
%let selected_feature_names= token&selected_feature_names;
%put &selected_feature_names;
%put &selected_feature_values;

*** EXPAND INTO FLAT SAS TABLE;
data emcIsrael&ncols.;
	set final_coo;
	by rownum;
	array tokens {&ncols} &selected_feature_names;	*** CREATE FULL NUMBER OF COLUMNS;
	array lookup {&ncols} (&selected_feature_values);
	retain tokens;
	do i= 1 to &ncols;				*** POPULATE ARRAY WITH EXPANDED VALUES;
			if lookup{i}= colnum then tokens{i}= value;
			if tokens{i}= . then tokens{i}= 0;
	end;
	keep rownum &selected_feature_names;
	if last.rownum then do;
		output;					*** OUTPUT ONE ROW FOR EACH SET OF ROWNUMS;
		if mod(rownum, 10000)= 0 then putlog 'NOTE: currently processing record ' rownum ' ...';
		do j= 1 to &ncols;
			tokens{j}=.;			*** REINITIALIZE ARRAY;
		end;
	end;
run;

*** MERGE LABELS WITH HASH;
data emcIsrael&ncols;
	declare hash h();
	length hkey target 8;                      	*** DEFINE HASH;
	h.defineKey("hkey");
	h.defineData("target");
	h.defineDone();
	do until(eof1);                            	*** FILL WITH TARGET SET;
	   set target end= eof1;
	   rc1= h.add();
	   if rc1 then do;
	      putlog 'ERROR: Target not found for line ' _n_=;
	      abort;
	   end;
	end;
	do until(eof2);                            	*** EXECUTE MERGE;
	   set emcIsrael&ncols (rename= (rownum= hkey)) end= eof2;
	   rc2= h.find();
	   if rc2 then do;
	      putlog 'ERROR: Target not found for line ' _n_=;
	      abort;
	   end;
	   output;
	end;
/*	keep hkey target token1-token&ncols; *** FOR FULL MATRIX; */
	keep hkey target &selected_feature_names; 	*** FOR SUBSET OF COLUMNS;
run;

*** APPEND TRAINING EXAMPLES THAT ARE ALL ZEROS;
data missing;
	merge target(rename= (hkey= rownum) in= a) final_coo(in= b);
	by rownum;
	if a and ^b;
	keep rownum target;
run;
data missing;
	set missing;
/*	array tokens token1-token&ncols (&ncols*0); 	*** FOR FULL MATRIX; */
	array tokens &selected_feature_names (&ncols*0);*** FOR SUBSET OF COLUMNS;
	do i= 1 to dim(tokens);
		if tokens{i}= . then abort;
	end;
	drop i;
run;
proc append base= emcIsrael&ncols data= missing (rename= (rownum= hkey)); run;

*** BUILD A RANDOM FOREST CLASSIFIER *****************************************;

*** TRAIN FOREST;
*** SCORE TRAINING DATA;
*** FILL IN GRID INFO IF NECESSARY;
proc hpforest
	data= emcIsrael&ncols
	maxtrees= 50						/* LARGER NUMBER OF TREES FOR HIGHER ACCURACY */
	leafsize= 1;						/* LOWER LEAFSIZE FOR HIGHER ACCURACY */
	input token: / level= interval;
	target target / level= nominal;
	id target hkey;
	ods output FitStatistics= fitstats(rename= (Ntrees= Trees));
	performance nthreads= &cpu_count.;					/* FILL IN CORE INFO */
	score out= emcIsrael&ncols.Pred;
*	performance commit= 10000 nodes=  host= "" install= "";	/* FILL IN GRID INFO */
run;

*** PLOT FIT STATISTICS;
data fitstats;
	set fitstats;
	label Trees= 'Number of Trees';
	label MiscAll= 'Full Data';
	label Miscoob= 'OOB';
run;
proc sgplot data= fitstats;
	title "OOB vs Training";
	series x= Trees y= MiscAll;
	series x= Trees y= MiscOob / lineattrs= (pattern= shortdash thickness= 2);
	yaxis label= 'Misclassification Rate';
run;

*** OUTPUT MULTI-CLASS LOGARITHMIC LOSS TO LOG *******************************;
data ll;
	set emcIsrael&ncols.Pred end= eof;
	array posteriorProbs p_:;
	retain logloss 0;
	vname= 'P_target'||strip(put(target, best.));
	do i= 1 to dim(posteriorProbs);
		if vname(posteriorProbs[i])= vname then
			logloss + log(posteriorProbs[i]);
	end;
	if eof then do;
		logloss= (-1*logloss)/_n_;
		put logloss= ;
	end;
run;

******************************************************************************;

*** ANOTHER APPROACH IS TO USE PROC SPSVD (OR HPTMINE) TO GENERATE ROTATED SVD;
*** FEATURES DIRECTLY FROM THE COO DATA;

*** FOR PROC SPSVD ALL INDICES MUST GREATER THAN ONE;
data final_coo_gt1;
	set final_coo;
	colnum= colnum+1;
run;

*** GENERATE SVD FEATURES;
proc spsvd
	data= final_coo_gt1
	k= &ncols
	p= 50
	;
	row rownum;
	col colnum;
	entry value;
	output rowpro= emcisreal&ncols.svd;
run;

*** CREATE THE MODELING DATA SET BY MERGING WITH THE TARGET SET;
*** THIS SET COULD ALSO BE USED WITH A CLASSIFIER LIKE;
*** HPFOREST, HPNEURAL, HPBNET, ETC.;
data emcisreal&ncols.svd;
	merge target emcisreal&ncols.svd(rename= (INDEX= hkey));
	by hkey;
run;






