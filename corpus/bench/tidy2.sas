******************************************************************************;
* Copyright (c) 2016 by SAS Institute Inc., Cary, NC 27513 USA               *;
*                                                                            *;
* Licensed under the Apache License, Version 2.0 (the "License");            *;
* you may not use this file except in compliance with the License.           *;
* You may obtain a copy of the License at                                    *;
*                                                                            *;
*   http://www.apache.org/licenses/LICENSE-2.0                               *;
*                                                                            *;
* Unless required by applicable law or agreed to in writing, software        *;
* distributed under the License is distributed on an "AS IS" BASIS,          *;
* WITHOUT WARRANTIES OR CONDITIONS OF ANY KIND, either express or implied.   *;
* See the License for the specific language governing permissions and        *;
* limitations under the License.                                             *;
******************************************************************************;

******************************************************************************;
* - tidy data utility two: multiple dimension variables stored in one column *;
* - based on Hadley Wickham's "Tidy data"                                    *;
*   https://www.jstatsoft.org/article/view/v059i10/v59i10.pdf                *;
*                                                                            *;
* INSTRUCTIONS:                                                              *;
* - set global constants directly below                                      *;
* - run entire file                                                          *;
******************************************************************************;


*** simulate example data ****************************************************;
data samp;
  length year 8 dim $2 measure 8;
  input year dim $ measure;
  datalines4;
2005 x1 5
2005 x2 10
2005 y1 3
2005 y2 18
2006 x1 3
2006 x2 20
2006 y1 1
2006 y2 0
;;;; 
run;

*** TODO: user set global constants ******************************************;
* INDATA2 - name of the input dataset - must include the Libref if the;
*           dataset is not in WORK - required;
* OUTDATA2 - name of the generated output dataset - include a libref as;
*            needed - optional, if blank, WORK._TIDY2_ will be generated;
* DIMCOL - name of the column containing values for the dimension variables;
*          specify the column name within the single quotes - required;
* DIMNAMES - space or comma delimited list of the names of the dimension;
*            variables - required;
* DIMLENGTHS - space or comma delimited list of the character lengths of the;
*              dimension variables - specify integer values - required;
*              number of values specified must match the number of values;
*              specified for DIMNAMES above;
*              lengths are used to parse the column for the dimension variable;
*              values when DIMSTOREMETHOD=2 (below);
* DIMSTOREMETHOD - method for how the dimension variable values are stored in;;
*                  the column - required;
*                  1 = delimited by one or more specified characters;
*                  2 = fixed start character position, counting from the left;
*                  the start position for a dimension variable needs to be;
*                  the same on every column value;
* PARSEDELIM - delimiter character list for parsing the column values;
*              specify the characters within single quotes;
*              used if DIMSTOREMETHOD = 1;
*              the first delimited value is assigned to the
*              first dimension variable in DIMNAMES, the second delimited
*              value is assigned to second dimension var in DIMNAMES, etc;
*              if no characters are specified, the default SAS macro;
*              delimiters will be used;
* PARSEPOSITIONS - space or comma delimited list of the start character;
*                  position for each variable, counting from the left;
*                  specify integer values - required if DIMSTOREMETHOD = 2;
*                  the number of values specified must match the number;
*                  of values specified for DIMNAMES above;
*                  this list along with the DIMLENGTHS list above is used;
*                  to parse the column values;

%let INDATA2 = samp; /* example setting */
%let OUTDATA2 = outtidy2; /* example setting */
%let DIMCOL = 'dim'; /* example setting */ /* quoted string */
%let DIMNAMES = DIM1 DIM2; /* example setting */
%let DIMLENGTHS = 1 1; /* example setting */
%let DIMSTOREMETHOD = 2; /* example setting */ /* valid value: 1 or 2 */
%let PARSEDELIM = ''; /* quoted string */
%let PARSEPOSITIONS = 1 2; /* example setting */

*** tidy2 ********************************************************************;
* macro that corrects multiple dimension variables stored in one column;

options validvarname=ANY;

%macro tidy2 / minoperator;

  * macro variable validations;
  * INDATA2;
  %if %superq(INDATA2) = %then %do;
    %put ERROR: Variable 'INDATA2' cannot be blank. The source dataset must be specified.;
    %if (&syscc. in (0 4)) %then %let syscc = 5;
    %return;
  %end;
  %if not(%sysfunc(exist(%superq(INDATA2)))) or (%superq(INDATA2)=%str(*)) %then %do;
    %put ERROR: Source dataset %qupcase(%superq(INDATA2)) does not exist.;
    %if (&syscc. in (0 4)) %then %let syscc = 5;
    %return;
  %end;

  * OUTDATA2;
  %if %superq(OUTDATA2)= %then %let OUTDATA2=_TIDY2_;

  * DIMCOL;
  %if %qsysfunc(kcompress(%superq(DIMCOL),%str(%' )))= %then %do;
    %put ERROR: Variable 'DIMCOL' cannot be blank. Specify a Column name within the single quotes.;
    %if (&syscc. in (0 4)) %then %let syscc = 5;
    %return;
  %end;
  %if (%qsysfunc(ksubstr(%superq(DIMCOL),1,1)) ne %str(%'))
      or (%qsysfunc(ksubstr(%qsysfunc(kreverse(%superq(DIMCOL))),1,1))
      ne %str(%')) %then %do;
    %put ERROR: The Column name specified for Variable 'DIMCOL' must be within single quotes.;
    %if (&syscc. in (0 4)) %then %let syscc = 5;
    %return;
  %end;

  * DIMNAMES;
  %if %superq(DIMNAMES) = %then %do;
    %put ERROR: Variable 'DIMNAMES' cannot be blank. Specify a space delimited list of two or more Dimension names.;
    %if (&syscc. in (0 4)) %then %let syscc = 5;
    %return;
  %end;

  %local dimcount;
  %let dimcount = %sysfunc(countw(%superq(DIMNAMES),%str( ,)));
  %if (&dimcount. lt 2) %then %do;
    %put ERROR: Variable 'DIMNAMES' must contain a space delimited list of two or more Dimension names.;
    %if (&syscc. in (0 4)) %then %let syscc = 5;
    %return;
  %end;

  * DIMLENGTHS;
  %if %superq(DIMLENGTHS) = %then %do;
    %put ERROR: Variable 'DIMLENGTHS' cannot be blank. Specify a space delimited list of the lengths of the Dimension Variables.;
    %if (&syscc. in (0 4)) %then %let syscc = 5;
    %return;
  %end;
  %if (%sysfunc(countw(%superq(DIMLENGTHS),%str( ,))) ne &dimcount.) %then %do;
    %put ERROR: Variable 'DIMLENGTHS' must contain the same number of lengths as the number of specified Dimension names.;
    %if (&syscc. in (0 4)) %then %let syscc = 5;
    %return;
  %end;
  data _null_;
    length val $10 message $200;
    l_error = 0;
    do x=1 to &dimcount.;
    val = scan(symget('DIMLENGTHS'),x,' ,');
    len = input(val,10.);
    if len lt 1 then do;
      message = "ERROR: Invalid value '"||strip(val)||"' specified within Variable 'DIMLENGTHS'. Specify an integer value greater than 0.";
      put message;
      message = '';
      l_error = 1;
    end;
    else call symputx('len'||strip(put(x,10.)),int(len),'L');
    end;
    call symputx('l_error',l_error,'L');
  run;
  %if (&l_error.) %then %do;
    %if (&syscc. in (0 4)) %then %let syscc = 5;
    %return;
  %end;

  * DIMSTOREMETHOD;
  %if %superq(DIMSTOREMETHOD) = %then %do;
    %put ERROR: Variable 'DIMSTOREMETHOD' cannot be blank. Valid values: 1 or 2.;
    %if (&syscc. in (0 4)) %then %let syscc = 5;
    %return;
  %end;
  %if not(%superq(DIMSTOREMETHOD) in (1 2)) %then %do;
    %put ERROR: Invalid value specified for Variable 'DIMSTOREMETHOD'. Valid values:  1 or 2.;
    %if (&syscc. in (0 4)) %then %let syscc = 5;
    %return;
  %end;

  * PARSEDELIM;
  %if (&DIMSTOREMETHOD. = 1) %then %do;
    %if (%superq(PARSEDELIM) ne %str() and %superq(PARSEDELIM) ne '') %then %do;
      %if (%qsysfunc(ksubstr(%superq(PARSEDELIM),1,1)) ne %str(%')) or
          (%qsysfunc(ksubstr(%qsysfunc(kreverse(%superq(PARSEDELIM))),1,1)) ne
           %str(%')) %then %do;
        %put ERROR: The delimiter characters populated for Variable 'PARSEDELIM' must be within single quotes.;
        %if (&syscc. in (0 4)) %then %let syscc = 5;
        %return;
      %end;
    %end;
    %else %let PARSEDELIM=;
  %end;

  * PARSEPOSITIONS;
  %if (&DIMSTOREMETHOD. = 2) %then %do;

    %if %superq(PARSEPOSITIONS)= %then %do;
      %put ERROR: Variable 'PARSEPOSITIONS' cannot be blank. Specify a space delimited list of the parsing start positions for the Dimension Variables.;
      %if (&syscc. in (0 4)) %then %let syscc = 5;
      %return;
    %end;
    %if (%sysfunc(countw(%superq(PARSEPOSITIONS),%str( ,))) ne &dimcount.)
        %then %do;
      %put ERROR: Variable 'PARSEPOSITIONS' must contain the same number of start positions as the number of specified Dimension names.;
      %if (&syscc. in (0 4)) %then %let syscc = 5;
      %return;
    %end;
    data _null_;
      length val $10 message $200;
      l_error = 0;
      do x=1 to &dimcount.;
      val = scan(symget('PARSEPOSITIONS'),x,' ,');
      pos = input(val,10.);
      if pos lt 1 then do;
        message = "ERROR: Invalid value '"||strip(val)||"' specified within Variable 'PARSEPOSITIONS'. Specify an integer value greater than 0.";
        put message;
        message = '';
        l_error = 1;
      end;
      else call symputx('pos'||strip(put(x,10.)),int(pos),'L');
      end;
      call symputx('l_error',l_error,'L');
    run;
    %if (&l_error.) %then %do;
      %if (&syscc. in (0 4)) %then %let syscc = 5;
      %return;
    %end;

  %end;

  * extract the dimension names, writing to macro var arrray;
  * dim1, dim2, etc.;
  %local x;
  %do x=1 %to &dimcount.;
    %local dim&x.;
    %let dim&x. = %scan(%superq(DIMNAMES),&x.,%str( ,));
  %end;

  * data step to generate the dimension variables;
  data &OUTDATA2.;
    set &INDATA2.;
    length
    %do x=1 %to &dimcount.;
      &&dim&x. $&&len&x.
    %end;;
    %if (&DIMSTOREMETHOD. = 1) %then %do;
      %do x=1 %to &dimcount.;
        &&dim&x. = kscan(&DIMCOL.n,&x.%if %superq(PARSEDELIM) ne %then,&PARSEDELIM.;);
      %end;
    %end;
    %else %do;   /* DIMSTOREMETHOD. = 2 */
      %do x=1 %to &dimcount.;
        &&dim&x. = ksubstr(&DIMCOL.n,&&pos&x.,&&len&x.);
      %end;
    %end;
    drop &DIMCOL.n;
  run;

%mend;
%tidy2
