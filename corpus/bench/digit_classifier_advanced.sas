/******************************************************************************
Copyright (c) 2015 by SAS Institute Inc., Cary, NC 27513 USA

Licensed under the Apache License, Version 2.0 (the "License");
you may not use this file except in compliance with the License.
You may obtain a copy of the License at

   http://www.apache.org/licenses/LICENSE-2.0

Unless required by applicable law or agreed to in writing, software
distributed under the License is distributed on an "AS IS" BASIS,
WITHOUT WARRANTIES OR CONDITIONS OF ANY KIND, either express or implied.
See the License for the specific language governing permissions and
limitations under the License.

******************************************************************************/

*******************************************************************************;
* VARIOUS SAS AND PYTHON ROUTINES FOR MNIST DATA:                              ;
* CALL PYTHON TO NORMALIZE THE DIGITS                                          ;
* VISUALIZE INPUT DIGITS WITH TRANSFORMATIONS                                  ;
* CLASSIFY DIGITS WITH A DEEP NEURAL NET                                       ;
* CHECK PREDICTIONS                                                            ;
*******************************************************************************;

*** SET WORKING DIRECTORY TO REPO DOWNLOADED FROM GIT;
%let git_repo_dir= ;

*** SET SYSTEM DIRECTORY SEPARATOR;
%let _SYSSCP= %index(&SYSSCP, WIN);
data _null_;
	if &_SYSSCP then call symput('dsep', '\');
	else call symput('dsep', '/');
run;

*** SET CPU COUNT;
%let cpu_count= ;

*** SET THE PYTHON COMMAND;
%let python_exec_command= ;

*** SYSTEM OPTIONS ***********************************************************;
%let git_repo_data_dir= &git_repo_dir.&dsep.data;
libname l "&git_repo_data_dir";
%let train_set= Digits_train_sample;

*** OUTPUT OPTIONS;
ods listing close;
ods html close;
ods html;

*** IMAGE PREPROCESSING ******************************************************;

*** ESTABLISH FILENAME AND MACRO VAR FOR JAVA CONNECTION TO PYTHON;
filename pysubmit "&git_repo_dir.&dsep.digit_preprocess_py.py";

*** EXECUTE PYTHON PREPROCESSING;
data _null_;
	length rtn_val 8;
	python_script= "%sysfunc(pathname(pysubmit))";
	python_call= cat('"', trim(python_script), '" "', trim("&git_repo_data_dir"), '"');
	declare javaobj j("dev.SASJavaExec", "&python_exec_command", python_call);
	j.callIntMethod("executeProcess", rtn_val);
run;

*** IMPORT PYTHON PREPROCESSED DIGITS INTO SAS FORMAT;
proc import
	out= &train_set
	datafile= "&git_repo_data_dir.&dsep.digits_train_sample_processed.csv"
	dbms= csv
	replace;
	getnames= yes;
	datarow= 2;
run;

data &train_set.;
	set &train_set.;
	pic_ID= _n_;
run;

*** MACROS USED TO VIEW RANDOM DIGITS ****************************************;

*** GTL TEMPLATE;
ods path show;
ods path(prepend) work.templat(update);
proc template; /* DEFINE A GRAPH TEMPLATE */
      define statgraph contour;
            dynamic _title;
            begingraph;
                  entrytitle _title;
                  layout overlayequated / equatetype= square
                              commonaxisopts= (viewmin= 0 viewmax= 26
                                  tickvaluelist= (0 5 10 15 20 25))
                              xaxisopts= (offsetmin= 0 offsetmax= 0)
                              yaxisopts= (offsetmin= 0 offsetmax= 0);
                  contourplotparm x= x y= y z= z /
                              contourtype= gradient nlevels= 255
                                  colormodel= twocolorramp;
                  endlayout;
            endgraph;
      end;
run;

*** MACROS FOR VEIWING DIGITS;
%global _length _nobs _seed;
%let _length= 10;
%let _nobs= 2000;
%let _seed= %sysfunc(floor(%sysfunc(time())));
data _r;
	length r 8;
	do i= 1 to &_length;
		r= floor(&_nobs*ranuni(&_seed)+1);
		output;
	end;
run;
proc sort data= _r; by r; run;
data _null_;
	set _r;
	call symput(left(compress('rand'||_n_)), r);
run;

%macro random_digit_string(_length, _nobs);

	%sysfunc(compress(
	%do i= 1 %to %eval(&_length - 1);
		&&rand&i %str(,)
	%end;
	&&rand&i
	))

%mend random_digit_string;

%macro view_inputs(DS, DIM);

	%global _length;
	%global _nobs;

	data _xyz;
		do i= %random_digit_string(&_length, &_nobs);
			obs= i;
			set &DS point= obs;
			array pixels pixel: ;
			do i= 1 to %eval(&dim*&dim);
				x= (i-&dim*floor((i-1)/&dim))-1;
				y= (%eval(&dim+1)-ceil(i/&dim))-1;
				z= pixels[i];
				output;
				keep pic_ID x y z;
			end;
		end;
	stop;
	run;

	proc sgrender data= _xyz template= contour;
		dynamic _title= "Digit Image";
		by pic_ID;
	run;

%mend;
%view_inputs(&train_set., 27);
*********************************************************************;
* RUN TO HERE TO SEE PREPROCESSING RESULTS                          *;
*********************************************************************;

%macro view_results(DS, DIM);

	%global _length;
	%global _nobs;

	%let random_digit_string= %random_digit_string(&_length, &_nobs);
	%let random_digit_string= %sysfunc(tranwrd(%quote(&random_digit_string),%str(,), ));
	%do i= 1 %to &_length;
		%let j= %scan(&random_digit_string, &i);
		data _xyz;
			set &DS (where= (pic_ID= &j));
			array pixels pixel: ;
			do i= 1 to %eval(&dim*&dim);
				x= (i-&dim*floor((i-1)/&dim))-1;
				y= (%eval(&dim+1)-ceil(i/&dim))-1;
				z= pixels[i];
				output;
				keep pic_ID x y z;
			end;
		run;

		proc sgrender data= _xyz template= contour;
			dynamic _title= "Input Image";
		run;

		data _p;
			set &DS (where= (pic_ID= &j) keep= p_: pic_ID);
		run;
		proc transpose data= _p (keep= p_:) out= _pt (drop= _name_); run;
		proc sort data= _pt; by descending col1; run;
		data _pt;
			set _pt(obs= 1);
			label _LABEL_= 'Digit Value';
			keep _LABEL_;
		run;
		title 'Top Prediction';
		proc print data= _pt noobs label; run;
		title;

	%end;

%mend;

*** METADATA PREP FOR TRAINING ***********************************************;

*** CREATE MACROS FOR VAR NAMES;
*** DROP PIXELS THAT ARE ALWAYS ZERO;
proc means data= &train_set (keep= pixel:) noprint;
	var pixel:;
	output out= o (keep= _STAT_ pixel: where= (_STAT_= 'MAX'));
run;
proc transpose data= o out= ot; run;
proc sql noprint;
	select _NAME_ into :inputs separated by ' '
	from ot
	where col1 ne 0;
	select count(_NAME_) into :n_inputs
	from ot
	where col1 ne 0;
quit;
%let inputs= &inputs;
%put inputs= &inputs;
%put n_inputs= &n_inputs;

*** TRAIN DEEP NEURAL NETWORK ************************************************;

*** REQUIRED CATALOG FOR PROC NEURAL;
proc dmdb
	data= &train_set
	dmdbcat= work.cat_&train_set.;
	var &inputs;
	class label;
	id pic_ID;
run;

*** REDIRECT LONG LIST OF PARAMETERS;
ods html close;
ods listing;
filename out "%sysfunc(pathname(WORK))\clusterout%sysfunc(compress(%sysfunc(datetime(), datetime23.),:)).txt";
proc printto print= out; run;

*** TRAIN DENOISING AUTOENCODER;
proc neural

	data= &train_set
	dmdbcat= work.cat_&train_set.
	random= 12345;
	performance compile details cpucount= &cpu_count threads= yes;

	netoptions decay= 0.1; /* L2 PENALTY */

	archi MLP hidden= 3;
	hidden &n_inputs / id= h1;
	hidden %eval(&n_inputs/2) / id= h2;
	hidden 10 / id= h3;

	input &inputs / std= no id= i level= int;
	target label / std= no id= t level= nom;

	initial infan= 1;
	prelim 10 preiter= 10;

	/* TRAIN LAYERS SEPARATELY */
	freeze h1->h2;
	freeze h2->h3;
	train maxtime= 10000 maxiter= 5000;

	freeze i->h1;
	thaw h1->h2;
	train maxtime= 10000 maxiter= 5000;

	freeze h1->h2;
	thaw h2->h3;
	train maxtime= 10000 maxiter= 5000;

	/* RETRAIN ALL LAYERS SIMULTANEOUSLY */
	thaw i->h1;
	thaw h1->h2;
	train maxtime= 10000 maxiter= 5000;

	score
		data= &train_set.
		outfit= &train_set._fit
		out= &train_set._score
		role= TRAIN;

run;

*** RECAPTURE HTML OUTPUT;
proc printto; run;
ods listing close;
ods html;

*** PRINT FITTING RESULTS;
proc print
	data= &train_set._fit
	noobs;
run;

*** SEE A FEW PREDICTIONS ****************************************************;
data &train_set._samp;
	do i= %random_digit_string(&_length, &_nobs);
		obs= i;
		set &train_set._score point= obs;
		output;
	end;
	stop;
run;
options mprint;
%view_results(&train_set._samp, 27);
