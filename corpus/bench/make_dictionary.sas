******************************************************************************;
* Copyright (c) 2015 by SAS Institute Inc., Cary, NC 27513 USA               *;
*                                                                            *;
* Licensed under the Apache License, Version 2.0 (the "License");            *;
* you may not use this file except in compliance with the License.           *;
* You may obtain a copy of the License at                                    *;
*                                                                            *;
*   http://www.apache.org/licenses/LICENSE-2.0                               *;
*                                                                            *;
* Unless required by applicable law or agreed to in writing, software        *;
* distributed under the License is distributed on an "AS IS" BASIS,          *;
* WITHOUT WARRANTIES OR CONDITIONS OF ANY KIND, either express or implied.   *;
* See the License for the specific language governing permissions and        *;
* limitations under the License.                                             *;
******************************************************************************;

******************************************************************************;
* script used to create a dictionary of representative images                *;
*   using a stacked autoencoder - to be used after threaded_tile.py or       *;
*   threaded_tile_r.py                                                       *;
*                                                                            *;
* square images are imported from patches.csv                                *;
* random selection of images are displayed to check import                   *;
* 5 layer stacked autoencoder network is trained on all imported images      *;
* weights from top level of trained network create a dictionary of           *;
*    representative images                                                   *;
* dictionary is saved to OUT_DIR as dictionary.sas7bdat                      *;
* hidden_output.sas7bdat is written to OUT_DIR                               *;
* hidden_output.sas7bdat can be used as input to make_clusters.sas           *;
*                                                                            *;
* CORE_COUNT - number of physical cores to use, int                          *;
* OUT_DIR - out (-o) directory created by Python script as unquoted string,  *;
*           must contain the generated csv files and is the directory in     *;
*           which to write the patches.sas7bdat and dictionary file,         *;
*           dictionary.sas7bdat                                              *;
* DIM - side length of square patches in IN_SET, probably (-d) value from    *;
*       Python script, int                                                   *;
* HIDDEN_UNIT_LIST - number units in each layer, space separated list of     *;
*                    5 integers                                              *;
******************************************************************************;

* TODO: user sets constants;
%let CORE_COUNT = 2;
%let OUT_DIR = ;
%let DIM = 25;
%let HIDDEN_UNIT_LIST = 50 25 2 25 50;

* system options;
options threads;
ods html close;
ods listing;

* start timer;
%let start = %sysfunc(datetime());

*** import csv ***************************************************************;

* libref to OUT_DIR;
libname l "&OUT_DIR.";

* woring dir to OUT_DIR;
x "cd &OUT_DIR";

* import csv;
proc import
  datafile="&OUT_DIR./patches.csv"
  out=l.patches
  dbms=csv
  replace;
run;

*** view random patches *******************************************************;

* define gtl template;
ods path show;
ods path(prepend) work.templat(update);
proc template;
  define statgraph contour;
    dynamic _title;
    begingraph;
      entrytitle _title;
      layout overlayequated / equatetype=square
        commonaxisopts=(viewmin=0 viewmax=%eval(&dim.-1)
                        tickvaluelist=(0 %eval(&dim./2) &dim.))
        xaxisopts=(offsetmin=0 offsetmax=0)
        yaxisopts=(offsetmin=0 offsetmax=0);
        contourplotparm x=x y=y z=z /
          contourtype=gradient nlevels=255
          colormodel=twocolorramp;
      endlayout;
    endgraph;
  end;
run;

* create random sample of patches;
proc surveyselect
  data=l.patches
  out=samp
  method=srs
  n=20; 
run;

* convert random patches to contours;
data _xyz;
  set samp;	
  array pixels pixel_:;
  pic_ID = _n_;
  do j=1 to %eval(&DIM*&DIM);
    x = (j-&DIM*floor((j-1)/&DIM))-1;
    y = (%eval(&DIM+1)-ceil(j/&DIM))-1;
    z = 255-pixels[j];
    output;
    keep pic_ID x y z;
  end;
run;

* render selected patches;
proc sgrender data=_xyz template=contour;
  dynamic _title="Input Image";
  by pic_ID;
run;

*** train autoencoder network ************************************************;

* create necessary dmdb catalog;
proc dmdb
  data=l.patches
  out=_
  dmdbcat=work.patches_cat;
  var pixel_:;
  target pixel_:;
run;

* train a simple stacked autoencoder with 5 layers;
proc neural

  data=l.patches
  dmdbcat=work.patches_cat
  random=44444;
  performance compile details cpucount=&CORE_COUNT threads=yes;

  nloptions noprint; /* noprint=do not show weight values */
  netoptions decay=0.1; /* decay=L2 penalty */

  archi MLP hidden=5; /* 5-layer network architecture */
  hidden %scan(&HIDDEN_UNIT_LIST, 1, ' ') / id=h1;
  hidden %scan(&HIDDEN_UNIT_LIST, 2, ' ') / id=h2;
  hidden %scan(&HIDDEN_UNIT_LIST, 3, ' ') / id=h3 act=linear;
  hidden %scan(&HIDDEN_UNIT_LIST, 4, ' ') / id=h4;
  hidden %scan(&HIDDEN_UNIT_LIST, 5, ' ') / id=h5;
  input pixel_0-pixel_%eval(&DIM*&DIM-1) / std=no id=i level=int;
  target pixel_0-pixel_%eval(&DIM*&DIM-1) / std=no id=t level=int;

  /* initialize network */
  /* infan reduces chances of neurons being saturated by random init */
  initial infan=0.1;

  /* pretrain layers seperately */

  /* layer 1 */
  freeze h1->h2;
  freeze h2->h3;
  freeze h3->h4;
  freeze h4->h5;
  train maxtime=10000 maxiter=5000;

  /* layer 2 */
  freeze i->h1;
  thaw h1->h2;
  train maxtime=10000 maxiter=5000;

  /* layer 3 */
  freeze h1->h2;
  thaw h2->h3;
  train maxtime=10000 maxiter=5000;

  /* layer 4 */
  freeze h2->h3;
  thaw h3->h4;
  train maxtime=10000 maxiter=5000;

  /* layer 5 */
  freeze h3->h4;
  thaw h4->h5;
  train maxtime=10000 maxiter=5000;

  /* retrain all layers together */

  thaw i->h1;
  thaw h1->h2;
  thaw h2->h3;
  thaw h3->h4;
  train
    tech=congra
    maxtime=10000
    maxiter=5000
    outest=weights_all
    outfit=_fit
    estiter=1;

  code file="%sysfunc(pathname(WORK))/autoencoder_score.sas";

run;

* plot training error;
proc sgplot
  data=_fit (where=(_NAME_='OVERALL'));
  series x=_ITER_ y=_RASE_;
  xaxis label='Iteration';
  title 'Iteration Plot';
run;
title;

*** save and visualize dictionary ********************************************;

* extract filters from network weights;
data _h5_weights;
  set weights_all(where=(_TYPE_='PARMS' and _NAME_='_LAST_')
    keep=_TYPE_ _NAME_ h5:);
    drop _TYPE_ _NAME_;
run;
proc transpose out=filters_t(drop=_LABEL_); run;
proc sort
  sortseq=linguistic(numeric_collation=on);
  by _NAME_;
run;
proc transpose out=filters_tt(drop=_NAME_); run;

* arrange filters into dictionary and save to OUT_DIR;
data l.dictionary;
  set filters_tt;
  array h h5:;
  array pixels pixel_0-pixel_%eval(&DIM.*&DIM.-1);
  do i=1 to %scan(&HIDDEN_UNIT_LIST, 5, ' ');
    do j=1 to %eval(&DIM.*&DIM.);
      pixels[j] = h[(i-1)*%eval(&DIM.*&DIM.) + j];
    end;
    filter_id = i;
    output;
  end;
  drop i j h5:;
run;

* convert dictionary to contours;
data _xyz;
  set l.dictionary;
  array pixels pixel_0-pixel_%eval(&DIM.*&DIM.);
  do i=1 to %eval(&DIM.*&DIM.);
    x = (i-&DIM.*floor((i-1)/&DIM.))-1;
    y = ((&DIM.+1)-ceil(i/&DIM.))-1;
    z = pixels[i];
    output;
    keep filter_ID x y z;
  end;
run;

* visualize dictionary;
proc sgrender data= _xyz template=contour;
dynamic _title='Dictionary Image';
  by filter_ID;
run;

*** create hidden layer output ***********************************************;
* can be clustered instead of raw pacthes using make_clusters.sas;
data l.hidden_output;
  set l.patches;
  %include "%sysfunc(pathname(WORK))/autoencoder.sas" / nosource;
  drop h1: h2: h4: h5: pixel_: _WARN_ P_:;
run;

* end timer;
%put NOTE: Total elapsed time: %sysfunc(putn(%sysevalf(%sysfunc(datetime())-&start), 10.2)) seconds.;

