﻿
proc hpbnet data=sampsio.hmeq nbin=5 structure=Naive TAN PC MB bestmodel  
missingint=IMPUTE missingnom=LEVEL;
target Bad;
input Reason Job Delinq Derog Ninq/level=NOM;
input Loan Mortdue Value Yoj Clage Clno Debtinc/level=INT;
output pred=pred network=net parameter=parameter varinfo=varinfo varlevel=varlevel varorder=varorder varselect=varselect validinfo=vi;
code file="U:\SGF_hpbnet_scorecode.sas";
run;

%macro createBNCdiagram(target=Bad, outnetwork=net);

   data outstruct;
        set &outnetwork;
        if strip(upcase(_TYPE_)) eq 'STRUCTURE' then output;
        keep _nodeid_   _childnode_  _parentnode_;
   run;

   data networklink;
       set outstruct;
        linkid = _N_;
        label linkid ="Link ID";
   run;

   proc sql;
      create table work._node1 as
         select distinct  _CHILDNODE_ as  node
         from networklink;
      create table work._node2  as
         select distinct _PARENTNODE_  as node
         from networklink;
   quit;

   proc sql;
      create table work._node as
         select node
         from work._node1
         UNION
         select node
         from work._node2;
   quit;

   data bnc_networknode;
       length NodeType $32.;
       set work._node;
       if strip(upcase(node)) eq strip(upcase("&target")) then do;
         NodeType = "TARGET";
         NodeColor=2;
       end;
       else  do;
         NodeType = "INPUT";
         NodeColor = 1;
       end;
       label NodeType ="Node Type" ;
       label NodeColor ="Node Color" ;

   run;

   data parents(rename=(_parentnode_ = _node_)) children(rename=(_childnode_ = _node_)) links;
       length _parentnode_ _childnode_ $ 32;
       set networklink;
       keep _parentnode_ _childnode_ ;
   run;

   *get list of all unique nodes;
   data nodes;
       set parents children;
   run;

   proc sort data=nodes;
       by _node_;
   run;

   data nodes;
       set nodes;
       by _node_;
       if first._node_;
      _Parentnode_ = _node_;
      _childnode_ = "";
   run;

   /*merge node color and type */
   data nodes;
       merge nodes bnc_networknode (rename=(node=_node_ nodeColor=_nodeColor_ nodeType=_nodeType_));
       by _node_;
   run;

   /*sort color values to ensure a consistent color mapping across networks */
   /*note that the color mapping is HTML style dependent though */
   proc sort data=nodes;
       by  _nodeType_;
   run;

   *combine nodes and links;
   * need outsummaryall for model report;
   data bnc_networksummary(drop=_shape_ _nodecolor_ _nodepriority_ _shape_ _nodeID_ _nodetype_ _linkdirection_) bnc_networksummaryall;
       length _parentnode_ _childnode_ $ 32;
       set nodes links;
       drop _node_;
       if _childnode_ EQ "" then
           do;
               _nodeID_ = _parentnode_;
               _nodepriority_ = 1;
               _shape_= "OVAL";
           end;
       else do;
         _linkdirection_ = "TO";
         output bnc_networksummary;
       end;
       output bnc_networksummaryall;
       label _linkdirection_="Link Direction";
   run;

    proc datasets lib=work nolist nowarn;
         delete _node _node1 _node2 nodes links parents children;
   run;

   quit;

   proc template;
      define statgraph bpath;
         begingraph / DesignHeight=720 DesignWidth=720;
            entrytitle "Bayesian Network Diagram";
            layout region;
              pathdiagram fromid=_parentnode_ toid=_childnode_ /
              arrangement=GRIP
              nodeid=_nodeid_
              nodetitle=_nodeID_
              nodeshape=_shape_
              nodepriority=_nodepriority_
              linkdirection=_linkdirection_
              nodeColorGroup=_NodeColor_
                        textSizeMin = 10
               ;
            endlayout;
         endgraph;
      end;
   run;

   ods graphics;
   proc sgrender data=bnc_networksummaryall template=bpath;
   run;

%mend;

%createBNCdiagram;
