******************************************************************************;
* Copyright (c) 2016 by SAS Institute Inc., Cary, NC 27513 USA               *;
*                                                                            *;
* Licensed under the Apache License, Version 2.0 (the "License");            *;
* you may not use this file except in compliance with the License.           *;
* You may obtain a copy of the License at                                    *;
*                                                                            *;
*   http://www.apache.org/licenses/LICENSE-2.0                               *;
*                                                                            *;
* Unless required by applicable law or agreed to in writing, software        *;
* distributed under the License is distributed on an "AS IS" BASIS,          *;
* WITHOUT WARRANTIES OR CONDITIONS OF ANY KIND, either express or implied.   *;
* See the License for the specific language governing permissions and        *;
* limitations under the License.                                             *;
******************************************************************************;

******************************************************************************;
* - tidy data utility three: values of one or more dimensions are stored     *;
*   across multiple column names and measure variables are stored in rows    *;
* - based on Hadley Wickham's "Tidy data"                                    *;
*   https://www.jstatsoft.org/article/view/v059i10/v59i10.pdf                *;
*                                                                            *;
* INSTRUCTIONS:                                                              *;
* - set global constants directly below                                      *;
* - set identifier (fixed) variables                                         *;
* - set measurement columns                                                  *;
* - set numeric columns not in DIMNAME                                       *;
* - run entire file                                                          *;
******************************************************************************;

*** simulate example data ****************************************************;
data samp;
  length year 8 type $1 w x y z 8;
  input year type $ w x y z;
  datalines4;
2005 A 3 6 2 4
2005 B 2 4 1 14
2006 A 1 12 0 0 
2006 B 2 8 1 0 
;;;; 
run;

*** TODO: user set global constants ******************************************;
* INDATA3 - name of the input dataset - must include the Libref if the;
*           dataset is not in WORK - required;
* OUTDATA3 - name of the generated output dataset - include a libref as;
*            needed - optional, if blank, WORK._TIDY3_ will be generated;
* DIMNAME - name of the dimension - specify one name - this could comprise;
*           multiple dimensions - if blank, _DIM_ will be used;
* MEASNAMESCOL - character column whose values are the names of the measure;
*                variables - specify one column name within the single quotes;
*                required - this column must be populated for every row;

%let INDATA3 = samp; /* example setting */ 
%let OUTDATA3 = outtidy3; /* example setting */
%let DIMNAME = DIM; /* example setting */
%let MEASNAMESCOL = 'TYPE'; /*  example setting */

*** TODO: user set identifier (fixed) variables *****************************;
* specify these variables by inserting them on lines immediately after the;
*   datalines4 statement below, one per line - required;
* do not include the column specified for MEASNAMESCOL (above) in this list;

/* example settings below */
data idvars;
input @1 name $char32.;
datalines4;
year
;;;;
run;

*** TODO: user set measurement variables *************************************;
* measure columns whose names contain the dimension (DIMNAME) values;
* these columns should all be of the same type (numeric or character) and;
*   must contain the measures described by MEASNAME above;
* if none is specified, all numeric columns will be used excluding any;
*   numeric columns specified in the idvars set above, and excluding numeric;
*   columns specified in the numcoldrop set below;
* specify these columns by inserting them on lines immediately after the
*   datalines4 statement below, one per line;

/* example settings below */
data dimMeasures;
input @1 name $char32.;
datalines4;
w
x
y
z
;;;;
run;

*** TODO: user set numeric columns not in DIMNAME ****************************;
* numeric columns whose names are not in the dimension (DIMNAME);
* this will be used if DIMMEASURES is empty;
* specify these columns by inserting them on lines immediately after the
*   datalines4 statement below, one per line;
* optional;

data numcoldrop;
input @1 name $char32.;
datalines4;
;;;;
run;

*** tidy3 ********************************************************************;
* macro that corrects values of one or more dimensions that are stored across;
*   multiple column names and measure variables that are stored in rows;

options validvarname=ANY;

%macro tidy3 / minoperator;

  * macro variable validations;
  * INDATA3;
  %if %superq(INDATA3) = %then %do;
    %put ERROR: Variable 'INDATA3' cannot be blank. The source dataset must be specified.;
    %if (&syscc. in (0 4)) %then %let syscc = 5;
    %return;
  %end;
  %if not(%sysfunc(exist(%superq(INDATA3)))) or
      (%superq(INDATA3) = %str(*)) %then %do;
    %put ERROR: Source dataset %qupcase(%superq(INDATA3)) does not exist.;
    %if (&syscc. in (0 4)) %then %let syscc = 5;
    %return;
  %end;

  * OUTDATA3;
  %if %superq(OUTDATA3) = %then %let OUTDATA3 = _TIDY3_;

  * DIMNAME;
  %if %superq(DIMNAME) = %then %let DIMNAME = _DIM_;

  * MEASNAMESCOL;
  %if %qsysfunc(kcompress(%superq(MEASNAMESCOL),%str(%' ))) = %then %do;
    %put ERROR: Variable 'MEASNAMESCOL' cannot be blank. Specify a Column name within the single quotes.;
    %if (&syscc. in (0 4)) %then %let syscc = 5;
    %return;
  %end;
  %if (%qsysfunc(ksubstr(%superq(MEASNAMESCOL),1,1)) ne %str(%'))
      or (%qsysfunc(ksubstr(%qsysfunc(kreverse(%superq(MEASNAMESCOL))),1,1))
      ne %str(%')) %then %do;
    %put ERROR: The Column name specified for Variable 'MEASNAMESCOL' must be within single quotes.;
    %if (&syscc. in (0 4)) %then %let syscc = 5;
    %return;
  %end;

  * extract and write the dim measure columns to macro var array;
  * dimmeas1, dimmeas2, etc.;
  %local dimmeascnt;
  %let dimmeascnt = 0;
  data _null_;
    set dimMeasures end=last;
    call symput('dimmeas'||strip(put(_n_,10.)),"'"||
      tranwrd(ktrim(name),"'","''")||"'n");
    if last then call symputx('dimmeascnt',_n_,'F');
  run;

  * if DIMMEASURES is unpopulated, extract numeric variables from INDATA3;
  %if (&dimmeascnt. = 0) %then %do;

    proc contents data=&INDATA3. noprint out=_metaout (keep=name type);
    run;

    * extract numeric variables that are not in IDVARS and NUMCOLDROP;
    * write to numMeasures;
    proc sql;
      create table numMeasures as
      select name
      from _metaout
      where type=1
      and not(upcase(name) in
        (select upcase(name) from idvars))
        and not(upcase(name) in
        (select upcase(name) from numcoldrop));
      drop table _metaout;
    quit;

    * extract and write the dim measure columns to macro var array;
    * dimmeas1, dimmeas2, etc.;
    data _null_;
      set numMeasures end=last;
      call symput('dimmeas'||strip(put(_n_,10.)),"'"||
        tranwrd(ktrim(name),"'","''")||"'n");
      if last then call symputx('dimmeascnt',_n_,'F');
    run;

    * exit if there are no numeric variables to be transposed ("stacked");
    %if (&dimmeascnt. = 0) %then %do;
      %put ERROR: Numeric variables are unavailable for further processing.;
      %if (&syscc. in (0 4)) %then %let syscc = 5;
      %return;
    %end;

  %end;

  * extract and write the identifier variables to macro var array;
  * idvar1, idvar2, etc.;
  %local idvarcnt;
  %let idvarcnt = 0;
  data _null_;
    set idvars end=last;
    call symput('idvar'||strip(put(_n_,10.)),"'"||
      tranwrd(ktrim(name),"'","''")||"'n");
    if last then call symputx('idvarcnt',_n_,'F');
  run;

  * exit if there are no identifier variables;
  %if (&idvarcnt. = 0) %then %do;
    %put ERROR: Table IDVARS must be populated with the Identifier variables.;
    %if (&syscc. in (0 4)) %then %let syscc = 5;
    %return;
  %end;

  * clear-out any labels on the dimmeas columns;
  data _temp_INDATA3;
    set &INDATA3.;
    %do x=1 %to &dimmeascnt.;
      label &&dimmeas&x.=;
    %end;
  run;

  %local x;  /* counter variable */

  * sort by the identifier variables and MEASNAMESCOL;
  proc sort data=_temp_INDATA3;
    by %do x=1 %to &idvarcnt.;
      &&idvar&x.
    %end;;
  run;

  * transpose the input data to "stack" the dimension measure columns;
  * into one measure variable;
  proc transpose data=_temp_INDATA3 out=&OUTDATA3. name=&DIMNAME.;
    by %do x=1 %to &idvarcnt.;
      &&idvar&x.
    %end;;
    var %do x=1 %to &dimmeascnt.;
      &&dimmeas&x.
    %end;;
    id &MEASNAMESCOL.n;
  run;

  proc sql;
    drop table _temp_INDATA3;
  quit;

%mend;
%tidy3
