******************************************************************************;
* Copyright (c) 2016 by SAS Institute Inc., Cary, NC 27513 USA               *;
*                                                                            *;
* Licensed under the Apache License, Version 2.0 (the "License");            *;
* you may not use this file except in compliance with the License.           *;
* You may obtain a copy of the License at                                    *;
*                                                                            *;
*   http://www.apache.org/licenses/LICENSE-2.0                               *;
*                                                                            *;
* Unless required by applicable law or agreed to in writing, software        *;
* distributed under the License is distributed on an "AS IS" BASIS,          *;
* WITHOUT WARRANTIES OR CONDITIONS OF ANY KIND, either express or implied.   *;
* See the License for the specific language governing permissions and        *;
* limitations under the License.                                             *;
******************************************************************************;

******************************************************************************;
* - tidy data utility one: dimension values are stored across multiple       *;
*   column names                                                             *;
* - based on Hadley Wickham's "Tidy Data"                                    *;
*   https://www.jstatsoft.org/article/view/v059i10/v59i10.pdf                *;
*                                                                            *;
* INSTRUCTIONS:                                                              *;
* - set global constants directly below                                      *;
* - set identifier (fixed) variables                                         *;
* - set measurement columns                                                  *;
* - set numeric columns not in DIMNAME                                       *;
* - run entire file                                                          *;
******************************************************************************;

*** simulate example data ****************************************************;
data samp;
  length year w x y z 8;
  input year w x y z;
  datalines4;
2005 5 10 3 18
2006 3 20 1 0  
;;;; 
run;

*** TODO: user set global constants ******************************************;
* INDATA1 - name of the input dataset - must include the Libref if the;
*           dataset is not in WORK - required;
* OUTDATA1 - name of the generated output dataset - include a libref as;
*            needed - optional, if blank, WORK._TIDY1_ will be generated;
* DIMNAME - name of the dimension - specify one name - this could comprise;
*           multiple dimensions - if blank, _DIM_ will be used;
* MEASNAME - name of the Mmeasure described by the dimension(s);
*            (e.g. freq, rank, etc.);
*            specify one name, if blank, _MEASURE_ will be used;

%let INDATA1 = samp; /* example setting */
%let OUTDATA1 = outtidy1; /*example setting */
%let DIMNAME = DIM; /* example setting */
%let MEASNAME = MEASURE; /* example setting */

*** TODO: user set identifier (fixed) variables *****************************;
* specify these variables by inserting them on lines immediately after the;
*   datalines4 statement below, one per line;
* if none is specified, the id variable _CASE_ will be generated containing;
*   the _n_ value from the source dataset.;

/* example setting below */
data idvars;
input @1 name $char32.;
datalines4;
year
;;;;
run;

*** TODO: user set measurement variables *************************************;
* measure columns whose names contain the dimension (DIMNAME) values;
* these columns should all be of the same type (numeric or character) and;
*   must contain the measures described by MEASNAME above;
* if none is specified, all numeric columns will be used excluding any;
*   numeric columns specified in the idvars set above, and excluding numeric;
*   columns specified in the numcoldrop set below;
* specify these columns by inserting them on lines immediately after the
*   datalines4 statement below, one per line;

/* example setting below */
data dimMeasures;
input @1 name $char32.;
datalines4;
w
x
y
z
;;;;
run;

*** TODO: user set numeric columns not in DIMNAME ****************************;
* numeric columns whose names are not in the dimension (DIMNAME);
* this will be used if DIMMEASURES is empty;
* specify these columns by inserting them on lines immediately after the
*   datalines4 statement below, one per line;
* optional;

data  numcoldrop;
input @1 name $char32.;
datalines4;
;;;;
run;

*** tidy1 ********************************************************************;
* macro that corrects dimension values stored across multiple column names;

options validvarname=ANY;

%macro tidy1 /  minoperator;

  * macro variable validations;
  * INDATA1;
  %if %superq(INDATA1) = %then %do;
    %put ERROR: Variable 'INDATA1' cannot be blank. The source dataset must be specified.;
    %if (&syscc. in (0 4)) %then %let syscc = 5;
    %return;
  %end;
  %if not(%sysfunc(exist(%superq(INDATA1)))) or
      (%superq(INDATA1)=%str(*)) %then %do;
    %put ERROR: Source dataset %qupcase(%superq(INDATA1)) does not exist.;
    %if (&syscc. in (0 4)) %then %let syscc = 5;
    %return;
  %end;

  * OUTDATA1;
  %if %superq(OUTDATA1)= %then %let OUTDATA1=_TIDY1_;

  * DIMNAME;
  %if %superq(DIMNAME)= %then %let DIMNAME=_DIM_;

  * MEASNAME;
  %if %superq(MEASNAME)= %then %let MEASNAME=_MEASURE_;

  * extract and write the dim measure columns to macro var array;
  * dimmeas1, dimmeas2, etc.;
  %local dimmeascnt;
  %let dimmeascnt = 0;
  data  _null_;
    set dimMeasures end=last;
    call symput('dimmeas'||strip(put(_n_,10.)),"'"||
      tranwrd(ktrim(name),"'","''")||"'n");
    if last then call symputx('dimmeascnt',_n_,'F');
  run;

  *if DIMMEASURES is unpopulated, extract numeric variables from INDATA1;
  %if (&dimmeascnt. = 0) %then %do;

    proc contents data=&INDATA1. noprint out=_metaout (keep=name type);
    run;

    * extract numeric variables that are not in IDVARS and NUMCOLDROP;
    * write to NUMMEASURES;
    proc sql;
      create table numMeasures as
      select name
      from _metaout
      where type = 1
        and not(upcase(name) in
        (select upcase(name) from idvars))
        and not(upcase(name) in
        (select upcase(name) from numcoldrop));
      drop table _metaout;
    quit;

    * extract and write the dim measure columns to macro var array;
    * dimmeas1, dimmeas2, etc.;
    data  _null_;
      set numMeasures end=last;
      call symput('dimmeas'||strip(put(_n_,10.)),"'"||
        tranwrd(ktrim(name),"'","''")||"'n");
      if last then call symputx('dimmeascnt',_n_,'F');
    run;

    * exit if there are no numeric variables to be transposed ("stacked");
    %if (&dimmeascnt. = 0) %then %do;
      %put ERROR: Numeric variables are unavailable for further processing.;
      %if (&syscc. in (0 4)) %then %let syscc = 5;
      %return;
    %end;

  %end;

  * extract and write the identifier variables to macro var array;
  * idvar1, idvar2, etc.;
  %local idvarcnt;
  %let idvarcnt=0;
  data  _null_;
    set idvars end=last;
    call symput('idvar'||strip(put(_n_,10.)),"'"||
      tranwrd(ktrim(name),"'","''")||"'n");
    if last then call symputx('idvarcnt',_n_,'F');
  run;

  * generate the _CASE_ column;
  * clear-out any labels on the dimmeas columns;
  data  _temp_indata / view=_temp_indata;
    set &INDATA1.;
    _CASE_=_n_;
    %do x=1 %to &dimmeascnt.;
      label &&dimmeas&x.=;
    %end;
  run;

  %local x;
  * transpose the input data to "stack";
  * the dimension measure columns into one measure variable;
  proc transpose
    data=_temp_indata
    out=&OUTDATA1. (rename=(col1=&MEASNAME.)
    %if (&idvarcnt.) %then drop=_CASE_;) name=&DIMNAME.;
    by _CASE_
    %if (&idvarcnt.) %then %do;
      %do x=1 %to &idvarcnt.;
        &&idvar&x.
      %end;
      NOTSORTED
    %end;;
    var %do x=1 %to &dimmeascnt.;
      &&dimmeas&x.
    %end;;
  run;

  proc sql;
    drop view _temp_indata;
  quit;

%mend;
%tidy1