/******************************************************************************

Copyright (c) 2015 by SAS Institute Inc., Cary, NC 27513 USA
Licensed under the Apache License, Version 2.0 (the "License");
you may not use this file except in compliance with the License.
You may obtain a copy of the License at

   http://www.apache.org/licenses/LICENSE-2.0
   
Unless required by applicable law or agreed to in writing, software
distributed under the License is distributed on an "AS IS" BASIS,
WITHOUT WARRANTIES OR CONDITIONS OF ANY KIND, either express or implied.
See the License for the specific language governing permissions and
limitations under the License.

******************************************************************************/

******************************************************************************;
* MAIN MACROS AND ROUTINES FOR                                               *;
* CLOUDERA DATA SCIENCE CHALLENGE: MEDICARE ANOMALIES                        *;
* PATRICK.HALL@SAS.COM                                                       *;
******************************************************************************;

******************************************************************************;
* SYSTEM OPTIONS                                                             *;
******************************************************************************;

*** SET THIS MACRO VARIABLE TO THE LOCATION OF THE DOWNLOADED DIRECTORY;
%let REPO_DIR= ;

*** SET THIS TO THE SYSTEM DIRECTORY SEPERATOR CHARACTER;
%let DSEP= ;

******************************************************************************;

x "cd &REPO_DIR";

*** GRAPHICS OPTIONS;
ods listing gpath= "&REPO_DIR";

*** GLOBAL MACRO VARS;
%global _BEST_K;

******************************************************************************;
* IMPORT SUMMARY CMS DATA                                                    *;
******************************************************************************;

*** IMPORT SUMMARY DATA ******************************************************;
%macro get_summary_data(R_DIR= &REPO_DIR);

	*** FUNCTION TO CONDITIONALLY IMPORT SUMMARY BY PROCEDURE ************;
	%macro get_summary_by_procedure(DS, FILENAME, MAX_PROC_REC_LENGTH);

		*** IF SET IS NOT IN SAS FORMAT, IMPORT IT;
		%if ^%sysfunc(exist(&DS)) %then %do;
			data &DS;
				infile "&R_DIR.&DSEP.&FILENAME"
				delimiter = ',' dsd missover lrecl= 32767
				firstobs= 2;
				informat procedure_code $ &MAX_PROC_REC_LENGTH..;
				informat num_service best32.;
				informat ave_provider_charge best32.;
				informat ave_medicare_payment best32.;
				format procedure_code $ &MAX_PROC_REC_LENGTH..;
				format num_service best12.;
				format ave_provider_charge dollar12.2;
				format ave_medicare_payment dollar12.2;
				input
					procedure_code $
					num_service
					ave_provider_charge
					ave_medicare_payment;
			run;
			%put NOTE: IMPORTING &FILENAME TO NET LIBRARY.;
		%end;

	%mend get_summary_by_procedure;

	*** EXECUTE IMPORT;
	%get_summary_by_procedure(outpatient_by_procedure,
		Medicare_Charge_Outpatient_APC30_Summary_by_APC_CY2011.csv, 100);
	%get_summary_by_procedure(inpatient_by_procedure,
		Medicare_Charge_Inpatient_DRG100_DRG_Summary_by_DRG_FY2011.csv, 100);

	*** FUNCTION TO CONDITIONALLY IMPORT SUMMARY BY PROCEDURE AND STATE ****;
	%macro get_summary_by_proc_st_prov(DS,
		FILENAME,
		MAX_PROC_REC_LENGTH,
		MAX_PROV_NAME_REC_LENGTH,
		MAX_PROV_ADDRESS_REC_LENGTH,
		MAX_PROV_CITY_REC_LENGTH,
		MAX_PROV_REF_REGION_REC_LENGTH
		);

		*** IF SET IS NOT IN SAS FORMAT, IMPORT IT;
		%if ^%sysfunc(exist(&DS)) %then %do;
			data &DS;
				infile "&R_DIR.&DSEP.&FILENAME"
					delimiter = ',' dsd missover lrecl= 32767
					firstobs= 2;
				informat procedure_code $ &MAX_PROC_REC_LENGTH..;
				informat provider_id best32.;
				informat name $ &MAX_PROV_NAME_REC_LENGTH..;
				informat address $ &MAX_PROV_ADDRESS_REC_LENGTH..;
				informat city $ &MAX_PROV_CITY_REC_LENGTH..;
				informat state $ 2.;
				informat zip best32.;
				informat ref_region $ &MAX_PROV_REF_REGION_REC_LENGTH..;
				informat num_service best32.;
				informat ave_provider_charge best32.;
				informat ave_medicare_payment best32.;
				format procedure_code $&MAX_PROC_REC_LENGTH..;
				format provider_id best12.;
				format name $ &MAX_PROV_NAME_REC_LENGTH..;
				format address $ &MAX_PROV_ADDRESS_REC_LENGTH..;
				format city $ &MAX_PROV_CITY_REC_LENGTH..;
				format state $2.;
				format zip 5.;
				format ref_region $ &MAX_PROV_REF_REGION_REC_LENGTH..;
				format num_service best12.;
				format ave_provider_charge dollar12.2;
				format ave_medicare_payment dollar12.2;
				input
					procedure_code $
					provider_id
					name $
					address $
					city $
					state $
					zip
					ref_region $
					num_service
					ave_provider_charge
					ave_medicare_payment;
			run;
			%put NOTE: IMPORTING &FILENAME TO NET LIBRARY.;
		%end;

	%mend get_summary_by_proc_st_prov;

	*** EXECUTE IMPORT;
	%get_summary_by_proc_st_prov(outpatient_by_proc_st_prov,
		Medicare_Provider_Charge_Outpatient_APC30_CY2011_v2.csv,
		100, 75, 75, 20, 20);
	%get_summary_by_proc_st_prov(inpatient_by_proc_st_prov,
		Medicare_Provider_Charge_Inpatient_DRG100_FY2011.csv,
		100, 75, 75, 20, 20);

	*** GENERATE UNIQUE, TEMPORARY KEY ACROSS OUT AND IN PATIENT PROCEDURES;
	data Outpatient_by_procedure;
		length proc_type $3;
		set Outpatient_by_procedure;
		proc_type= 'OUT';
	run;
	proc append base= proc_key_map
		data= Outpatient_by_procedure(keep= procedure_code proc_type) force;
	run;
	data Inpatient_by_procedure;
		length proc_type $3;
		set Inpatient_by_procedure;
		proc_type= 'IN';
	run;
	proc append base= proc_key_map
		data= Inpatient_by_procedure(keep= procedure_code proc_type) force;
	run;
	proc sort data= proc_key_map noduprec; by procedure_code; run;
	data proc_key_map;
		set proc_key_map;
		global_proc_id= _n_;
	run;

	*** APPEND OUT- AND IN- PATIENT PROCEDURES;
	proc append base= all_procs data= Outpatient_by_proc_st_prov force; run;
	proc append base= all_procs data= Inpatient_by_proc_st_prov force; run;

	*** JOIN WITH global_prod_id;
	proc sort
		data= all_procs
		threads
		sortsize= MAX;
		by procedure_code;
	run;
	data all_procs;
		merge all_procs proc_key_map;
		by procedure_code;
	run;

%mend get_summary_data;
%get_summary_data;

******************************************************************************;
* PART 1                                                                     *;
******************************************************************************;

*** PART A: Which three procedures have the highest relative variance in cost?;

*** CREATE TEMP WORKING SET;
data x y;
        set all_procs(keep= global_proc_id
                            procedure_code
                            proc_type
                            ave_provider_charge);
run;
*** FIND COEFFICIENT OF VARIATION;
proc univariate
	data= x
	noprint
	idout;
	var ave_provider_charge;
	by global_proc_id;
	id procedure_code proc_type;
	output out=x cv= cv;
run;
*** SORT BY DESCENDING CV;
proc sort data= x; by descending cv; run;
*** OUTPUT RESULTS;
data _null_;
	length line $256;
	set x (obs= 3);
	file "&REPO_DIR.&DSEP.part1a.csv";
	line= strip(procedure_code);
	put line;
run;
proc export
	data= x
	outfile= "&REPO_DIR.&DSEP.part1a-procedureCV.csv"
	dbms= csv
	replace;
run;
data x;
	set x (obs= 3 keep= global_proc_id cv);
run;
proc sort; by global_proc_id; run;
data x;
	merge x (in= x) y;
	by global_proc_id;
	if x;
run;
proc sort; by descending cv; run;
proc sgplot data= x;
 	hbox ave_provider_charge / category= procedure_code;
	label
		procedure_code= 'Procedure Code'
		ave_provider_charge= 'Average Provider Charge';
run;

proc delete data= x; run;

*** FUNCTION FOR SORTING, COUNTING AND SELECTING THE TOP 3 RECORDS ***********;
*** BY A CERTAIN VARIABLE;
*** ALSO OUTPUT;
*** USED FOR PARTS B-D;
%macro get_top_3(SUMMARY_SET, BY_VAR, OUT_FILE, TITLE=, PIE_CHART= 1,
	PIE_VAR=);

	proc sort
		data= &SUMMARY_SET
		out= &SUMMARY_SET;
		by &BY_VAR;
	run;

	%if (&PIE_CHART) %then %do;

		filename pie "&REPO_DIR.&DSEP.&OUT_FILE..png";
		goptions
			reset= all
			cback= white
			htitle= 48pt
			htext= 10pt
			gsfname= pie
			dev= png
			hsize= 2400pt
			vsize= 1600pt;
			title "&TITLE";
		proc gchart data= x;
			pie &PIE_VAR /
				other= 2.5
				radius= 35
				value= none
				percent= arrow
				slice= arrow
				ascending
				noheading
				plabel= (font= 'Albany AMT/bold' h=1 color=depk);
		run;
		quit;
		title;

	%end;

	data &SUMMARY_SET;
		set &SUMMARY_SET;
		by &BY_VAR;
		retain count 0;
		if first.&BY_VAR. then count= 1;
		if last.&BY_VAR. then output;
		count + 1;
	run;
	proc sort; by descending count; run;

	data _null_;
		length line $256;
		retain check_sum 0;
		set &SUMMARY_SET end= eof;
		file "&REPO_DIR.&DSEP.&OUT_FILE..csv";
		line= strip(&BY_VAR);
		if _n_ le 3 then put line;
		check_sum= check_sum + count;
		if eof then call symput('CHECK_SUM', strip(put(check_sum, best.)));
	run;
	%put NOTE: CHECK SUM= &CHECK_SUM..;

%mend get_top_3;

*** PART B: Which three providers claimed the highest amount
*** (on average) for the largest number of procedures?;

*** SORT TO CREATE TEMP WORKING SET;
proc sort
	data= all_procs
	out= x
	threads
	sortsize= MAX;
	by global_proc_id descending ave_provider_charge;
run;
data x;
	set x;
	by global_proc_id descending ave_provider_charge;
	if first.global_proc_id;
run;
%get_top_3(x,
           provider_id,
           part1b,
           TITLE= PERCENT OF HIGHEST CLAIMS FOR A PROCEDURE,
           PIE_VAR= NAME
          );

proc delete data= x; run;

*** PART C: The providers in which three regions claimed the highest average
*** amount for the largest number of procedures?;

*** SORT TO CREATE TEMP WORKING SET;
proc sort
	data= all_procs
	out= x (keep= ref_region global_proc_id ave_provider_charge)
	threads
	sortsize= MAX;
	by ref_region global_proc_id;
run;
*** CREATE SUMMARY SET;
proc means
	data= x
	noprint;
	by ref_region global_proc_id;
	var ave_provider_charge;
	output out= x (drop= _TYPE_ _FREQ_ where=(_STAT_= 'MEAN'));
run;
proc sort
	data= x (keep= ref_region global_proc_id ave_provider_charge)
	out= x
	threads
	sortsize= MAX;
	by global_proc_id descending ave_provider_charge;
run;
data x;
	set x;
	by global_proc_id descending ave_provider_charge;
	if first.global_proc_id;
run;
%get_top_3(x,
           ref_region,
           part1c,
           TITLE= PERCENT OF HIGHEST CLAIMS FOR A PROCEDURE,
           PIE_VAR= REF_REGION
          );
proc delete data= x; run;

*** PART D: Which three providers had the largest claim difference for the
*** largest number of procedures?;

*** CREATE TEMP WORKING SET;
data x (keep= difference provider_id name global_proc_id);
	set all_procs;
	difference= ave_provider_charge-ave_medicare_payment;
run;
*** CREATE SUMMARY SET;
proc sort
	data= x
	threads
	sortsize= MAX;
	by global_proc_id descending difference;
run;
proc export
	data= x
	outfile= "&REPO_DIR.&DSEP.part1d-procedureDiff.csv"
	dbms= csv
	replace;
run;
data x;
	set x;
	by global_proc_id descending difference;
	if first.global_proc_id;
run;
%get_top_3(x, provider_id, part1d, PIE_CHART= 0);

proc delete data= x; run;

******************************************************************************;
* PART 2                                                                     *;
******************************************************************************;

*** COUNT PROVIDERS;
proc sql noprint;
	select count(unique(provider_id)) into :NUM_PROVIDER
	from all_procs;
quit;
%put NOTE: NUMBER OF PROVIDERS= &NUM_PROVIDER..;

*** COUNT REGIONS;
proc sql noprint;
	select count(unique(ref_region)) into :NUM_REGION
	from all_procs;
quit;
%put NOTE: NUMBER OF REGIONS= &NUM_REGION..;

*** BASIC FEATURE ENGINEERING ************************************************;

*** LEVEL OF A PROCEDURE;

data level;
	set Proc_key_map;
	if index(upcase(procedure_code), 'LEVEL I')^= 0 or
		index(upcase(procedure_code), 'LEVEL 1')^= 0 then level= 1;
	if index(upcase(procedure_code), 'LEVEL II')^= 0 or
		index(upcase(procedure_code), 'LEVEL 2')^= 0 then level= 2;
	if index(upcase(procedure_code), 'LEVEL III')^= 0 or
		index(upcase(procedure_code), 'LEVEL 3')^= 0 then level= 3;
	if index(upcase(procedure_code), 'LEVEL IV')^= 0 or
		index(upcase(procedure_code), 'LEVEL 4')^= 0 then level= 4;
	if index(upcase(procedure_code), 'LEVEL V')^= 0 or
		index(upcase(procedure_code), 'LEVEL 5')^= 0 then level= 5;
	if strip(proc_type)= 'IN' then do;
		level= 6;
		if index(upcase(procedure_code), 'W CC')^= 0
			then level= level+1;
		if index(upcase(procedure_code), 'W MCC')^= 0
			then level= level+1;
	end;
	if level= . then level= 0;
run;

*** IS THE PROVIDER TIGHTLY ASSOCIATED WITH A UNIVERSITY;

proc sort
	data= all_procs (keep= name provider_id city)
	out= university
	threads
	sortsize= max
	nodupkey;
	by provider_id;
run;
data university;
	set university;
	if index(upcase(name), 'UAMS ')^= 0 then university_flag= 1;
	if index(upcase(name), 'UCSF ')^= 0 then university_flag= 1;
	if index(upcase(name), 'UMASS ')^= 0 then university_flag= 1;
	if index(upcase(name), 'UNM ')^= 0 then university_flag= 1;
	if index(upcase(name), 'UMC ')^= 0 then university_flag= 1;
	if index(upcase(name), 'UW ')^= 0 then university_flag= 1;
	if index(upcase(name), 'STANFORD')^= 0 and
		strip(upcase(city))= 'STANFORD' then university_flag= 1;
	if index(upcase(name), 'UT ')^= 0 and
		index(upcase(name), 'NUT ')= 0 and
		index(upcase(name), 'OUT ')= 0 then university_flag= 1;
	if index(upcase(name), 'UVA ')^= 0 then university_flag= 1;
	if index(upcase(name), 'YALE')^= 0 then university_flag= 1;
	if index(upcase(name), 'ALBERT EINSTEIN')^= 0 then university_flag= 1;
	if index(upcase(name), 'BAYLOR')^= 0 then university_flag= 1;
	if index(upcase(name), 'UNIV')^= 0  and provider_id^= 340166
		then university_flag= 1;
	if index(upcase(name), 'UI ')^= 0 and
		index(upcase(name), 'LOUI ')= 0 and
			index(upcase(name), 'MAUI ')= 0 then university_flag= 1;
	if index(upcase(name), 'USC ')^= 0 then university_flag= 1;
	if index(upcase(name), 'COLLEGE')^= 0 and
		provider_id^= 450299 then university_flag= 1;
	if index(upcase(name), 'LSU ')^= 0 then university_flag= 1;
	if index(upcase(name), 'UPMC ')^= 0 then university_flag= 1;
	if index(upcase(name), 'MOUNT SINAI')^= 0 then university_flag= 1;
	if index(upcase(name), 'USD ')^= 0 then university_flag= 1;
	if index(upcase(name), 'UCLA ')^= 0 then university_flag= 1;
	if index(upcase(name), 'UNIVERSITY')^= 0 and
		provider_id^= 340166 then university_flag= 1;
	if university_flag= . then university_flag= -1;
	drop city;
run;

*** Which three providers are least like the others? *************************;

*** CREATE A SUMMARY SET;
proc sort
	data= all_procs
	out= summary
	threads
	sortsize= max;
	by global_proc_id;
run;
*** MERGE WITH LEVEL FEATURES;
data summary;
	merge summary level (keep= global_proc_id level);
	by global_proc_id;
	array levels level0-level7;
	do i= 1 to dim(levels);
		if i-1= level then levels[i]= num_service;
		else levels[i]= 0;
	end;
	drop i;
run;
*** MERGE WITH UNIVERSITY FEATURES;
proc sort
	data= summary
	threads
	sortsize= max;
	by provider_id;
run;
data summary;
	merge summary university (keep= provider_id university_flag);
	by provider_id;
run;

*** COLLAPSE SET BY PROVIDER ID **********************************************;

proc sql noprint;
	create table provider_summary as
	select
		unique provider_id,
		name,
		mean(ave_provider_charge) as AVE_ave_provider_charge,
		mean(ave_medicare_payment) as AVE_ave_medicare_payment,
		mean(num_service) as AVE_num_service,
		mean(level) as AVE_level,
		sum(level0) as SUM_level0,
		sum(level1) as SUM_level1,
		sum(level2) as SUM_level2,
		sum(level4) as SUM_level4, /* LEVELS 3 AND 4 HIGHLY CORRELATED */
		sum(level5) as SUM_level5,
		sum(level7) as SUM_level7, /* LEVELS 6 AND 7 HIGHLY CORRELATED */
		max(university_flag) as MAX_university_flag
	from summary
	group by provider_id;
quit;

*** FUNCTIONS TO FIND MOST DISTINCT CASES IN SET *****************************;

*** TRADITIONAL APPROACH;
%macro regress_with_diagnostics(DS, ID_VAR, TITLE, N);

	title "&TITLE";

	*** LOG TRANSFORM SKEWED DISTRIBUTIONS;
	data reg;
		set &DS. (keep= &ID_VAR.
			ave_ave_provider_charge
			ave_ave_medicare_payment
			ave_num_service);
		LOG_AVE_num_service= log(AVE_num_service);
		LOG_AVE_ave_provider_charge= log(AVE_ave_provider_charge);
		LOG_AVE_ave_medicare_payment= log(AVE_ave_medicare_payment);
		label
			LOG_AVE_num_service= 'Log(Number of Services)'
			LOG_AVE_ave_provider_charge= 'Log(Average Provider Charge)'
			LOG_AVE_ave_medicare_payment= 'Log(Average Medicare Payment)'
		;
		drop AVE_:;
	run;
	proc univariate data= reg noprint;
		var 
		LOG_AVE_num_service 
		LOG_AVE_ave_provider_charge 
		LOG_AVE_ave_medicare_payment;
		histogram  / normal (mu=est sigma=est noprint);
		inset min max skewness kurtosis / position=ne;
	run;
	proc reg
		data= reg
		plots (label)= all;
		model log_ave_ave_provider_charge =
			log_ave_ave_medicare_payment log_ave_num_service /
			vif 		/* MULTICOLLINEARITY */
			influence 	/* OUTLIERS */
			spec 		/* HETEROSCEDASTICITY, INDEPENDENCE OF ERRORS */
			partial 	/* PARTIAL REGRESSOR PLOTS */
			;
		id &ID_VAR;
		output out= regout rstudent= rstudent h= leverage p= pred r= res;
	run;
	quit;

	*** FIND OUTLIERS BY;
	*** ABS(RSTUDENT) > 2;
	*** LEVERAGE < 2P/N;
	data regout;
		set regout;
		length TYPE $25.;
		leverage_cutoff= 6/&N.;
		if (rstudent > 2 and leverage > LEVERAGE_CUTOFF)
			then TYPE= 'HIGH OUTLIER AND LEVERAGE';
		if (rstudent > 2 and leverage < LEVERAGE_CUTOFF)
			then TYPE= 'HIGH OUTLIER';
		if ((rstudent < 2 and rstudent > -2) and leverage < LEVERAGE_CUTOFF)
			then TYPE= 'NON-INFLUENTIAL';
		if ((rstudent < 2 and rstudent > -2) and leverage > LEVERAGE_CUTOFF)
			then TYPE= 'LEVERAGE';
		if (rstudent < -2 and leverage > LEVERAGE_CUTOFF)
			then TYPE= 'LOW OUTLIER AND LEVERAGE';
		if (rstudent < -2 and leverage < LEVERAGE_CUTOFF)
			then TYPE= 'LOW OUTLIER';
	run;
	proc sort
		data= regout (where= (TYPE= 'HIGH OUTLIER'
			or TYPE= 'HIGH OUTLIER AND LEVERAGE'))
		out= regout_by_abs_rstudent;
		by descending rstudent;
	run;

	title;

%mend regress_with_diagnostics;

*** UNSUPERVISED LEARNING APPROACH;
*** IMPORT FUNCTION TO ESTIMATE THE BEST NUMBER OF CLUSTERS;
*** BY ALIGNED BOX CRITERION;

/* ABC SOURCE NOT INCLUDED FOR INTELLECTUAL PROPERTY REASONS */
*filename ABC '';
*%include ABC /source2;
*filename ABC;

%macro find_farthest_points(DS,
                            ID_VAR,
                            DROP_ID_VAR,
                            TITLE,
                            _BEST_K,
                            N_DISPLAY,
                            KEEP_LIST,
                            WHERE=
                            );

	*** DETERMINE INPUTS;
	filename emutil catalog 'sashelp.emutil.em_varmacro.source';
	%include emutil;
	filename emutil;
	proc contents
		data= &DS
		out= names (keep= name
			where= (strip(name)^= "&ID_VAR" and
			strip(name)^= "&DROP_ID_VAR"));
	run;
	%EM_VARMACRO(
		name= INPUTS,
		metadata= names,
		nummacro= NUM_INPUTS
	);

	*** STANDARDIZE SET;
	proc stdize
		data= &DS
		out= std_&DS
		method= std;
		var %INPUTS;
	run;

	*** ASSIGN CLUSTER LABELS **********************************************;

	proc fastclus
		data= std_&DS
		maxclusters= &_BEST_K
		maxiter= 100
		out= outc (drop= DISTANCE);
		var %INPUTS;
	run;

	*** PROJECT ONTO 2-D USING A DENOISING AUTOENCODER *********************;

	%if ^(%sysfunc(exist(outc_2dscore))) %then %do;

		*** REQUIRED CATALOG FOR PROC NEURAL;
		proc dmdb
			data= outc
			out= outc_dmdb
			dmdbcat= work.cat_outc_dmdb;
			var %INPUTS;
			id &ID_VAR CLUSTER;
			target %INPUTS;
		run;

		*** TRAIN DENOISING AUTOENCODER;
		proc neural
			data= outc
			dmdbcat= work.cat_outc_dmdb
			random= 12345;
			/* RUN USING CPUCOUNT THREADS */
			performance compile details cpucount= 4 threads= yes;

			nloptions noprint fconv= 0.00001;
			netoptions decay= 1.0; /* DENOISING */

			/* HOURGLASS ARCHITECTURE */
			/* ENABLES PROJECTION ONTO LOWER DIMENSIONAL SPACES */
			archi MLP hidden= 5;
			hidden &NUM_INPUTS / id= h1;
			hidden %eval(&NUM_INPUTS/2) / id= h2;
			hidden 2 / id= h3 act= linear;
			hidden %eval(&NUM_INPUTS/2) / id= h4;
			hidden &NUM_INPUTS / id= h5;

			input %INPUTS / std= no id= i level= int;
			target %INPUTS / std= no id= t level= int;

			/* INFAN PREVENTS NEURONS FROM BEING SATURATED PRIOR TO TRAINING */
			initial infan= 0.5;
			prelim 10 preiter= 10;

			/* TRAIN LAYERS SEPARATELY */
			freeze h1->h2;
			freeze h2->h3;
			freeze h3->h4;
			freeze h4->h5;
			train maxtime= 10000 maxiter= 5000;

			freeze i->h1;
			thaw h1->h2;
			train maxtime= 10000 maxiter= 2000;

			freeze h1->h2;
			thaw h2->h3;
			train maxtime= 10000 maxiter= 2000;

			freeze h2->h3;
			thaw h3->h4;
			train maxtime= 10000 maxiter= 2000;

			freeze h3->h4;
			thaw h4->h5;
			train maxtime= 10000 maxiter= 2000;

			/* RETRAIN ALL LAYERS SIMULTANEOUSLY */
			thaw i->h1;
			thaw h1->h2;
			thaw h2->h3;
			thaw h3->h4;
			train maxtime= 10000 maxiter= 2000;

			%let NEURAL_SCORE_CODE= %sysfunc(pathname(WORK))\neuralscore%sysfunc(compress(%sysfunc(datetime(), datetime23.),:)).sas;
			code file= "&NEURAL_SCORE_CODE";
		run;

		/* RECORD OUTPUT OF HIDDEN UNITS */
		/* WHICH WILL BE THE PROJECTION */
		data outc_2dscore;
			set outc;
			%include "&NEURAL_SCORE_CODE";
		run;

	%end;

	*** NEED AN AVERAGE ROW;
	data last_row;
		set std_&DS.;
		if _n_= 1 then stop;
	run;
	data last_row;
		if _n_= 0 then set last_row;
		&ID_VAR.= 1000000;
		&DROP_ID_VAR.= 'ORIGIN';
		array x %INPUTS (&NUM_INPUTS.*0);
	run;
	proc append base= std_&DS. data= last_row force; run;

	*** FIND PAIRWISE DISTANCES FOR EVERY POINT INCLUDING ORIGIN *********;
	proc distance
		data= std_&DS.
		out= dist_std_&DS.
		method= euclid
		shape= square
		nostd;
		var interval(%INPUTS);
		id &DROP_ID_VAR.;
		copy &ID_VAR.;
	run;

	*** MERGE WITH NAMES TO PROFILE AND DISPLAY;
	proc sort data= &DS.; by &ID_VAR.; run;
	proc sort data= dist_std_&DS.; by &ID_VAR.; run;
 	proc sort data= outc_2dscore; by &ID_VAR.; run;
	data dist_std_&DS.;
		merge dist_std_&DS. &DS.;
		by &ID_VAR.;
	run;
	data profile_&DS.;
		merge dist_std_&DS. (keep= &ID_VAR &DROP_ID_VAR %INPUTS origin)
			 outc_2dscore (keep= &ID_VAR. CLUSTER);
		by &ID_VAR.;
	run;
	proc sort
		data=profile_&DS.;
		by descending origin;
	run;
	proc print data= profile_&DS. (obs= &N_DISPLAY); run;
	proc sort
		data= dist_std_&DS. (keep= origin &ID_VAR. &DROP_ID_VAR.)
		out= label_&DS.;
		by descending origin;
	run;
	data label_&DS.;
		set label_&DS.;
		if ((_n_ > &N_DISPLAY.) and (&ID_VAR not in (&KEEP_LIST)))
			then &DROP_ID_VAR.= '';
	run;
	proc sort; by &ID_VAR.; run;
	data outc_2dscore;
		merge outc_2dscore label_&DS. (keep= &ID_VAR &DROP_ID_VAR origin);
		by &ID_VAR.;
	run;

	*** GRAPHICAL OUTPUT *************************************************;

	title "&TITLE";
	ods graphics / labelmax= 3400;
	proc sgplot data= outc_2dscore &WHERE. ;
		scatter x= h31 y= h32 /
		transparency= 0.35
		group= CLUSTER
		markerattrs= (size=  9 symbol= circleFilled)
		datalabel= &DROP_ID_VAR.
		nomissinggroup;
	run;
	title;

%mend find_farthest_points;

*** EXECUTE FOR PROVIDERS;
%regress_with_diagnostics(provider_summary, provider_id, PROVIDER REGRESSION,
	&NUM_PROVIDER);

*** DROP ADDITIONAL CORRELATED VAR;
data provider_summary;
	set provider_summary(drop= ave_num_service);
run;

/* _BEST_K= 16 DETERMINED BY PREVIOUS ABC RUNS */

*** VIEW ALL CLUSTERS;
%find_farthest_points(provider_summary, provider_id, name, Provider Clusters,
	16, 10, ., WHERE= );

*** VIEW ALL CLUSTERS WITH LABELED REGRESSION OUTLIERS;
%find_farthest_points(provider_summary, provider_id, name, Provider Clusters,
	16, 7, %str(390081, 310025, 50118), WHERE= );

*** VIEW DETAIL OF REGRESSION OUTLIERS;
%find_farthest_points(provider_summary, provider_id, name, Provider Clusters,
	16, 0, %str(390081, 310025, 50118),
	WHERE= %str((where= (CLUSTER= 2))));

proc export
	data= Profile_provider_summary
	outfile= "&REPO_DIR.&DSEP.part2a-ProviderClustersProfile.csv"
	dbms= csv
	replace;
run;
proc export
	data= Regout_by_abs_rstudent
	outfile= "&REPO_DIR.&DSEP.part2a-ProviderRegressionOutliers.csv"
	dbms= csv
	replace;
run;

proc delete data= outc_2dscore; run;

*** COLLAPSE SET BY REGION ID ************************************************;

proc sql noprint;
	create table ref_summary as
	select unique ref_region,
		mean(ave_provider_charge) as AVE_ave_provider_charge,
		mean(ave_medicare_payment) as AVE_ave_medicare_payment,
		mean(num_service) as AVE_num_service,
		mean(level) as AVE_level,
		/* sum(level0) as SUM_level0, */ /* 0,6,7 CORRELATED */
		sum(level1) as SUM_level1,
		/* sum(level2) as SUM_level2, */
		sum(level3) as SUM_level3,
		/* sum(level4) as SUM_level4, */ /* 2,3,4 CORRELATED */
		sum(level5) as SUM_level5,
		sum(level6) as SUM_level6,
		/* sum(level7) as SUM_level7, */
		MAX(university_flag) as MAX_university_flag
	from summary
	group by ref_region;
quit;

*** EXECUTE FOR REGIONS;
%regress_with_diagnostics(ref_summary, ref_region, REGION REGRESSION,
	&NUM_REGION);

/* DROP ADDITIONAL CORRELATED VAR */
/* CREATE REQUIRED NUMERIC ID */
data ref_summary;
	set ref_summary (drop= ave_num_service);
	ref_id= _n_;
run;

/* _BEST_K= 7 DETERMINED BY PREVIOUS ABC RUNS */

*** VIEW ALL CLUSTERS;
%find_farthest_points(ref_summary, ref_id, ref_region, Region Clusters,
	7, 15, ., WHERE= );

*** VIEW ALL CLUSTERS WITH LABELED REGRESSION OUTLIERS;
%find_farthest_points(ref_summary, ref_id, ref_region, Region Clusters,
	7, 15, %str(34, 58, 162), WHERE= );

*** VIEW DETAIL OF REGRESSION OUTLIERS;
%find_farthest_points(ref_summary, ref_id, ref_region, Region Clusters,
	7, 5, %str(34, 58, 162),
	WHERE= %str((where= (CLUSTER= 2))));

*** EXPORT RESULTS TO CSV;
proc export
	data= Profile_ref_summary
	outfile= "&REPO_DIR.&DSEP.Part2b-RegionClustersProfile.csv"
	dbms= csv
	replace;
run;
proc export
	data= Regout_by_abs_rstudent
	outfile= "&REPO_DIR.&DSEP.Part2b-RegionRegressionOutliers.csv"
	dbms= csv
	replace;
run;

******************************************************************************;
* PART 3                                                                     *;
******************************************************************************;

/* THIS CODE IS PRIMARILY FOR EDUCATIONAL PURPOSES */
/* THE RESULTS FROM THIS CODE WILL NOT MATCH THE RESULTS EXPLAINED IN THE */
/* ACCOMPANYING WHITE PAPER */

/* THE DATA REQUIRED FOR PART 3 OF THE COMPETITION WAS SUPPLIED BY */
/* CLOUDERA. ONLY A SMALL SAMPLE OF THE DATA IS AVAILABLE IN THIS EXAMPLE. */

/* THE ORIGINAL REVIEW LIST CONTAINED ~50,000 PATIENTS */
/* THE ORIGINAL PATIENT LIST CONTAINED ~100,000,000 PATIENTS */
/* THESE SETS WHERE ORIGINALLY READ IN FROM XML DUMPS */

libname repo "&REPO_DIR.";

******************************************************************************;
*** PART3 - PHASE 1: CLUSTER ANALYSIS ****************************************;
******************************************************************************;

*** FLAG PATIENTS REVIEWED FOR FRAUD *****************************************;
proc sort
	data= repo.Review_patient_history_samp
	out= review;
	by id;
run;
proc sort
	data= repo.patient_history_samp
	out= patient_history;
	by id;
run;
data patient_history;
	merge patient_history review (in= x);
	by id;
	if x then REVIEW_FLAG= 1;
	else REVIEW_FLAG= 0;
	output;
run;

*** ENCODE PATIENT HISTORY INFO FOR LATER CLUSTERING *************************;

*** GENDER;
proc dmdb
	data= patient_history (keep= id gender)
	out= patient_history_dmdb
	dmdbcat= work.patient_history_cat;
	class gender;
	id id;
run;
data patient_history;
	merge patient_history
		  patient_history_dmdb (rename= (gender= ENCODED_GENDER));
	by id;
run;

*** AGE;
proc sort
	data= patient_history (keep= id age)
	out= age
	sortsize= MAX
	threads
	sortseq= linguistic(numeric_collation= on);
	by age;
run;
proc dmdb
	data= age
	out= patient_history_dmdb
	dmdbcat= work.patient_history_cat;
	class age (data);
	id id;
run;
proc sort
	data= patient_history_dmdb
	sortsize= MAX
	threads;
	by id;
run;
data patient_history;
	merge patient_history
		  patient_history_dmdb (rename= (age= ENCODED_AGE));
	by id;
run;

*** INCOME;
proc sort
	data= patient_history (keep= id income)
	out= income
	sortsize= MAX
	threads
	sortseq= linguistic(numeric_collation= on);
	by income;
run;
proc dmdb
	data= income
	out= patient_history_dmdb
	dmdbcat= work.patient_history_cat;
	class income (data);
	id id;
run;
proc sort
	data= patient_history_dmdb
	sortsize= MAX
	threads;
	by id;
run;
data patient_history;
	merge patient_history
		  patient_history_dmdb (rename= (income= ENCODED_INCOME));
	by id;
run;

*** STANDARDIZE FOR LATER CLUSTER ANALYSIS;
proc stdize
	data= patient_history
	out= patient_history_std
	outstat= os
	method= mean;
    var ENCODED_:;
run;

/* PATIENT TRANSACTIONS WERE ORIGNALLY IN ADT FORMAT */
/* AND WERE PREPROCESSED INTO THE STATE AVAILABLE IN THE SAMPLE DATA */
/* THE ORIGINAL DATA WAS COMPOSED OF ~300,000,000 TRANSACTIONS */

*** CREATE SVD FEATURES FOR PATIENTS FROM DENSE REPRESENTATION ***************;
*** FOR LATER CLUSTERING *****************************************************;

proc sort data= repo.transaction_coo; by id global_proc_id; run;
proc hptmine
	data= repo.transaction_coo;
	svd
		k= 10
		row= global_proc_id
		col= id
		entry= count
		outdocpro= svdpro;
	performance nthreads= 4;
run;

/* DISTRIBUTED SVD CODE FOR EDUCATIONAL PURPOSES */

*** THIS WILL REQUIRE DISTRIBUTED PROCESSING;
*** PUSH DATA TO DISTRIBUTED ENVIRONMENT;
//*proc sort */
/*	data= repo.transaction_coo */
/*	out= transaction_coo*/
/*	sortsize= MAX */
/*	threads; */
/*	by id global_proc_id; */
/*run;*/
/*libname gridlib teradata*
/*	server= 'tera2650.unx.sas.com' */
/*	user= 	*/
/*	password= */
/*	database= hps;*/
/*option set= GRIDHOST= '';*/
/*option set= GRIDATASERVER= '';*/
/*option set= GRIDINSTALLLOC= '';*/
/*option set= GRIDMODE= 'sym';*/
/*data gridlib.ccp_transaction_coo */
	/* (bulkload= yes */
	/* dbcommit= 10000000 */
	/* dbcreate_table_opts= 'PRIMARY INDEX (id)'); */
/*    set transaction_coo;*/
/*run;*/

*** CREATE SVDS USING DISTRIBUTED PROCEDURE;
/*%let GRID_TEXTANALYTICS_BIN_LOC=; */
/**/
/*proc hptmine */
/*	data= gridlib.ccp_transaction_coo; */
/*	svd */
/*		k= 10 */
/* 		row= global_proc_id */
/* 		col= id */
/* 		entry= count*/
/* 		outdocpro= svdpro;  */
/*	performance nodes= all; /* USE ALL AVAILABLE COMPUTE NODES */*/
/*run; */

*** MINOR POST PROCESSING;
proc sort
	data= svdpro
	sortsize= MAX
	threads;
	by id;
run;

*** CREATE SET OF CLUSTERING INPUTS ******************************************;

data patient_history_std;
	merge patient_history_std svdpro;
	by id;
run;

*** CREATE MANY SMALL CLUSTERS ***********************************************;

proc hpclus
	data= patient_history_std
	outstat= patient_cluster_profile1000
	maxclusters= 1000
	maxiter= 100
	seed= 12345
	standardize= none
	impute= none
	/* DONT ATTEMPT TO DETERMINE THE NUMBER OF CLUSTERS */
	/* VERY EXPENSIVE */
	noc= none;
	input
		ENCODED_GENDER
		ENCODED_AGE
		ENCODED_INCOME
		COL1   /* SVD FEATURES: COL1-COL10 */
		COL2
		COL3
		COL4
		COL5
		COL6
		COL7
		COL8
		COL9
		COL10;
	        /* COPY THESE TO THE OUTPUT SET */
	id
		ID
		REVIEW_FLAG
		GENDER
		AGE
		INCOME
		COL1
		COL2
		COL3
		COL4
		COL5
		COL6
		COL7
		COL8
		COL9
		COL10;
	score out= patient_cluster_label1000;
	performance threads= 4;
run;

/* DISTRIBUTED SVD CODE FOR EDUCATIONAL PURPOSES */

/**** THIS WILL REQUIRE DISTRIBUTED PROCESSING; */
/**** PUSH DATA TO DISTRIBUTED ENVIRONMENT; */
/*data gridlib.ccp_patient_history_std */
	/* (bulkload= yes */
	/* dbcommit= 10000000 */
	/* dbcreate_table_opts= 'PRIMARY INDEX (id)'); */
/*    set patient_history_std;*/
/*run;*/
/**/
/**** CREATE CLUSTERS USING DISTRIBUTED PROCEDURE; */
/*proc hpclus */
/*	data= gridlib.ccp_patient_history_std*/
/*	outstat= patient_cluster_profile1000*/
/*	maxclusters= 1000*/
/*	maxiter= 100*/
/*	seed= 12345*/
/*	standardize= none*/
/*	impute= none*/
/*	noc= none; /* DONT ATTEMPT TO DETERMINE THE NUMBER OF CLUSTERS - VERY EXPENSIVE */*/
/*	input */
/*		ENCODED_GENDER */
/*		ENCODED_AGE */
/*		ENCODED_INCOME */
/*		COL1   /* SVD FEATURES: COL1-COL10 */  */
/*		COL2*/
/*		COL3*/
/*		COL4*/
/*		COL5*/
/*		COL6*/
/*		COL7*/
/*		COL8*/
/*		COL9*/
/*		COL10; */
/*	        /* COPY THESE TO THE OUTPUT SET */*/
/*	id*/
/*		REVIEW_FLAG*/
/*		FRAUD_RANK*/
/*		GENDER*/
/*		AGE*/
/*		INCOME*/
/*		COL1 */
/*		COL2*/
/*		COL3*/
/*		COL4*/
/*		COL5*/
/*		COL6*/
/*		COL7*/
/*		COL8*/
/*		COL9*/
/*		COL10; 		*/
/*	score out= patient_cluster_label1000; */
/*	performance nodes= all; */
/*run; */

*** ANALYZE LOCATION OF REVIEW PATIENTS **************************************;

proc freq
	data= patient_cluster_label1000(keep= REVIEW_FLAG _CLUSTER_ID_)
	noprint;
	tables REVIEW_FLAG*_CLUSTER_ID_ / out= review_flag_freq;
run;
data review_flag_freq0;
	set review_flag_freq (where= (REVIEW_FLAG= 0)
		rename= (count= count0)
		keep= _CLUSTER_ID_ count REVIEW_FLAG);
	drop REVIEW_FLAG;
run;
data review_flag_freq1;
	set review_flag_freq (where= (REVIEW_FLAG= 1)
		rename= (count= count1)
		keep= _CLUSTER_ID_ count REVIEW_FLAG);
	drop REVIEW_FLAG;
run;

*** SCORE SUSPICIOUS CLUSTERS;
data review_clusters;
	merge review_flag_freq0 review_flag_freq1 (in= x);
	by _CLUSTER_ID_;
	if x;
	PERCENT_REVIEW= count1/(count0+count1);
	CLUSTER_REVIEW_SCORE= floor(1000*PERCENT_REVIEW);
run;
proc sort; by descending PERCENT_REVIEW; run;
data patient_cluster_fraud_rank (keep= id _CLUSTER_ID_);
	set patient_cluster_label1000;
run;

*** SCORE SUSPICIOUS INDIVIDUALS USING SUSPICIOUS CLUSTER SCORES;
proc sort sortsize= MAX threads; by _CLUSTER_ID_; run;
proc sort data= review_clusters; by _CLUSTER_ID_; run;
data patient_cluster_fraud_rank;
	merge patient_cluster_fraud_rank
		review_clusters(keep= _CLUSTER_ID_ CLUSTER_REVIEW_SCORE);
	by _CLUSTER_ID_;
	if CLUSTER_REVIEW_SCORE= . then  CLUSTER_REVIEW_SCORE= 0;
run;
proc sort sortsize= MAX threads; by id; run;

******************************************************************************;
*** PHASE 2: ASSOCIATION ANALYSIS ********************************************;
******************************************************************************;

*** FIND FREQUENT ITEM SETS IN THE REVIEWED PATIENT TRANSACTIONS *************;
*** 2 ITEM SETS/0.1 PERCENT SUPPORT ******************************************;

proc dmdb
	data= repo.review_transaction_coo(keep= id global_proc_id)
	out= fraudulent_transaction_dmdb
	dmdbcat= work.fraudulent_transaction_cat;
	class global_proc_id;
	var id;
run;
proc assoc
	data= repo.review_transaction_coo(keep= id global_proc_id)
	dmdbcat= work.fraudulent_transaction_cat
	out= freq_fraud_trans_group
	items= 2
	support= 3; /* WOULD BE SET MUCH HIGHER FOR FULL DATA SET */
	customer id;
	target global_proc_id;
run;

*** FIND FREQUENT ITEM SETS IN ALL TRANSACTIONS  *****************************;
*** 2 ITEM SETS **************************************************************;

proc dmdb
	data= repo.transaction_coo(keep= id global_proc_id)
	out= transaction_dmdb
	dmdbcat= work.transaction_cat;
	class global_proc_id;
	var id;
run;
proc assoc
	data= repo.transaction_coo(keep= id global_proc_id)
	dmdbcat= work.transaction_cat
	out= freq_trans_group
	items= 2
	support= 8; /* WOULD BE SET MUCH HIGHER FOR FULL DATA SET */
	customer id;
	target global_proc_id;
run;

*** COMMON REVIEWED 2-ITEM SETS;
proc sort
	data= freq_trans_group(where= (SET_SIZE= 2) keep= SET_SIZE ITEM1 ITEM2)
	out= freq_2_item_trans(keep= ITEM1 ITEM2);
	by ITEM1 ITEM2;
run;
proc sort
	data= freq_fraud_trans_group(where= (SET_SIZE= 2)
		keep= SET_SIZE ITEM1 ITEM2)
	out= freq_fraud_2_item_trans(keep= ITEM1 ITEM2);
	by ITEM1 ITEM2;
run;
data suspicious_2_item;
	merge freq_2_item_trans(in= a) freq_fraud_2_item_trans(in= b);
	by ITEM1 ITEM2;
	if ^a and b;
run;

*** FIND WHICH PATIENTS HAVE THESE SAME 2-ITEM SETS **************************;

*** INIT TRANS SET FOR LATER MERGES;
proc sort data= repo.transaction_coo sortsize= MAX threads; by global_proc_id;
run;

*** FIND UNIQUE ITEMS IN SUSPICIOUS 2-ITEM SETS;
*** JUST TO SUBSET TRANSACTIONS FOR FASTER PROCESSING;
data _1;
	set suspicious_2_item;
	keep ITEM1;
run;
data _2;
	set suspicious_2_item(drop= ITEM1 rename= (ITEM2= ITEM1));
	keep ITEM1;
run;
proc append base= _1 data= _2; run;
proc sort data= _1 nodupkey; by ITEM1; run;
data _1;
	set _1 (rename= (ITEM1= global_proc_id_c));
	global_proc_id= input(strip(global_proc_id_c), 3.);
	drop global_proc_id_c;
run;
data one_item_patient_proc;
	merge repo.transaction_coo(in= a) _1 (in= b);
	by global_proc_id;
	drop count;
	if a and b;
run;

*** INIT ASSOC_REVIEW_SCORE VAR AND PATIENT_HISTORY_ASSOC_REVIEW SET;
data patient_history_assoc_review;
	set patient_history_std (keep= id);
	ASSOC_REVIEW_SCORE= 0;
run;
proc sort sortsize= MAX threads; by id; run;

*** FIND TWO ITEM SETS-MUCH MORE RARE, USEFUL;
%macro two_item_set;

	%let DSID= %sysfunc(open(suspicious_2_item));
	%let NOBS= %sysfunc(attrn(&DSID, NLOBS));
	%let rc= %sysfunc(close(&DSID));

	%do i= 1 %to &NOBS;

		data two_item_set&i.;
			set suspicious_2_item;
			if _n_= &i;
		run;
		proc transpose
			out= two_item_set&i. (rename= (COL1= global_proc_id)
				drop= _NAME_);
			var item:;
		run;
		data two_item_set&i;
			set two_item_set&i 
				(rename= (global_proc_id= global_proc_id_c));
			global_proc_id= input(strip(global_proc_id_c), 3.);
			drop global_proc_id_c;
		run;
		data two_item_patient&i.;
			merge one_item_patient_proc (in= a) 
				two_item_set&i. (in= b);
			by global_proc_id;
			if a and b;
		run;
		proc sort
			data= two_item_patient&i.
			sortsize= MAX
			threads;
			by id global_proc_id;
		run;
		data two_item_patient&i.;
			set two_item_patient&i.;
			by id global_proc_id;
			if ^(first.id and last.id);
			drop global_proc_id;
		run;
		proc sort sortsize= MAX threads nodupkey; by id; run;
		data patient_history_assoc_review;
			merge patient_history_assoc_review 
				two_item_patient&i. (in= x);
			by id;
			if x then ASSOC_REVIEW_SCORE= ASSOC_REVIEW_SCORE+50;
			output;
		run;

	%end;

	*** CHECK/SUMMARIZE RESULTS;
	proc freq data= patient_history_assoc_review(keep= ASSOC_REVIEW_SCORE);
		tables ASSOC_REVIEW_SCORE;
	run;

%mend;
%two_item_set;

*** CREATE FINAL FRAUD RANKING ***********************************************;

data patient_history_std;
	merge patient_history_std
		patient_cluster_fraud_rank
		patient_history_assoc_review;
	by id;
	FRAUD_RANK= CLUSTER_REVIEW_SCORE + ASSOC_REVIEW_SCORE;
run;

*** CHECK/SUMMARIZE RESULTS;
proc freq data= patient_history_std (keep= REVIEW_FLAG);
	tables REVIEW_FLAG;
run;
proc freq data= patient_history_std (keep= FRAUD_RANK REVIEW_FLAG
		where= (REVIEW_FLAG= 1));
	tables FRAUD_RANK;
run;
proc freq data= patient_history_std (keep= FRAUD_RANK REVIEW_FLAG
		where= (REVIEW_FLAG= 0));
	tables FRAUD_RANK;
run;
proc freq data= patient_history_std (keep= ASSOC_REVIEW_SCORE REVIEW_FLAG
		where= (REVIEW_FLAG= 1));
	tables ASSOC_REVIEW_SCORE;
run;
proc freq data= patient_history_std (keep= ASSOC_REVIEW_SCORE REVIEW_FLAG
		where= (REVIEW_FLAG= 0));
	tables ASSOC_REVIEW_SCORE;
run;
proc freq data= patient_history_std (keep= CLUSTER_REVIEW_SCORE REVIEW_FLAG
		where= (REVIEW_FLAG= 1));
	tables CLUSTER_REVIEW_SCORE;
run;
proc freq data= patient_history_std (keep= CLUSTER_REVIEW_SCORE REVIEW_FLAG
		where= (REVIEW_FLAG= 0));
	tables CLUSTER_REVIEW_SCORE;
run;

*** CREATE SUBMISSION ********************************************************;

proc sort data= review; by id; run;
data _part3;
	length cid $9.;
	merge patient_history_std(keep= FRAUD_RANK ASSOC_REVIEW_SCORE
		CLUSTER_REVIEW_SCORE id)
		review(keep= id in= x);
	if ^x;
	by id;
	cid= translate(right(put(id, 9.)),'0',' ');
	drop id;
run;
proc sort
	data= _part3
	sortsize= MAX
	threads;
	by descending FRAUD_RANK;
run;
data _null_;
	length line $9;
	set _part3 (obs= 10000);
	file "&REPO_DIR.&DSEP.part3.csv";
	line= strip(cid);
	put line;
run;
