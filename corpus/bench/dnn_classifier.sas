******************************************************************************;
* Copyright (c) 2015 by SAS Institute Inc., Cary, NC 27513 USA               *;
*                                                                            *;
* Licensed under the Apache License, Version 2.0 (the "License");            *;
* you may not use this file except in compliance with the License.           *;
* You may obtain a copy of the License at                                    *;
*                                                                            *;
*   http://www.apache.org/licenses/LICENSE-2.0                               *;
*                                                                            *;
* Unless required by applicable law or agreed to in writing, software        *;
* distributed under the License is distributed on an "AS IS" BASIS,          *;
* WITHOUT WARRANTIES OR CONDITIONS OF ANY KIND, either express or implied.   *;
* See the License for the specific language governing permissions and        *;
* limitations under the License.                                             *;
******************************************************************************;

******************************************************************************;
* script used to create classify image patches using a deep neural network - *;
*   to be used after threaded_tile.py or threaded_tile_r.py                  *;
*                                                                            *;
* square images are imported from patches.csv                                *;
* random selection of patches are displayed to check import                  *;
* 3 layer neural network is trained on all imported images                   *;
* input patches are scored with predicted values or labels                   *;
*   and saved to OUT_DIR                                                     *;
* score code with network weights is saved to OUT_DIR                        *;
* conditionally plots classified patches over original images                *;
*                                                                            *;
* CORE_COUNT - number of physical cores to use, int                          *;
* OUT_DIR - out (-o) directory created by Python script as unquoted string,  *;
*           must contain the generated csv files and is the directory in     *;
*           which to write the patches.sas7bdat set, the label file,         *;
*           DNN_labels.sas7bdat, and score code file, DNN_score.sas          *;
* LABEL_FILE - csv file name as unquoted string, containing original image   *;
*              names and labels - must contain 2 columns with headers:       *;
*              orig_name, label                                              *;
* DIM - side length of square patches in IN_SET, probably (-d) value from    *;
*       Python script, int                                                   *;
* HIDDEN_UNIT_LIST - number units in each layer, space separated list of     *;
*                    3 integers                                              *;
* VALID_PROPORTION - proportion of patches to assign to a validation set for *;
*                    training neural network, float (0,1)                    *;
* STAT - error measure used to assess neural network                         *;
*        unquoted string string: ASE or MISC                                 *;
* PLOT_RESULTS - plot the classification results overlayed onto the original *;
*                images, not suitable for many input images or extremely     *;
*                large input images, boolean int, 1 = true                   *;
******************************************************************************;

* TODO: user sets constants;
%let CORE_COUNT = 2;
%let OUT_DIR = ;
%let LABEL_FILE = ;
%let DIM = 25;
%let HIDDEN_UNIT_LIST = 100 50 10;
%let VALID_PROPORTION = 0.3;
%let STAT = MISC;
%let PLOT_RESULTS = 1;

* system options;
options threads;
ods html close;
ods listing;

* start timer;
%let start = %sysfunc(datetime());

*** import csv ***************************************************************;

* libref to OUT_DIR;
libname l "&OUT_DIR.";

* woring dir to OUT_DIR;
x "cd &OUT_DIR";

* import csv;
proc import
  datafile="&OUT_DIR./patches.csv"
  out=l.patches
  dbms=csv
  replace;
run;
proc sort; by orig_name; run;

*** view random patches *******************************************************;

* define gtl template;
ods path show;
ods path(prepend) work.templat(update);
proc template;
  define statgraph contour;
    dynamic _title;
    begingraph;
      entrytitle _title;
      layout overlayequated / equatetype=square
        commonaxisopts=(viewmin=0 viewmax=%eval(&DIM.-1)
                        tickvaluelist=(0 %eval(&DIM./2) &DIM.))
        xaxisopts=(offsetmin=0 offsetmax=0)
        yaxisopts=(offsetmin=0 offsetmax=0);
        contourplotparm x=x y=y z=z /
          contourtype=gradient nlevels=255
          colormodel=twocolorramp;
      endlayout;
    endgraph;
  end;
run;

* create random sample of patches;
proc surveyselect
  data=l.patches
  out=samp
  method=srs
  n=20;
run;

* convert random patches to contours;
data _xyz;
  set samp;
  array pixels pixel_:;
  pic_ID = _n_;
  do j=1 to %eval(&DIM*&DIM);
    x = (j-&DIM*floor((j-1)/&DIM))-1;
    y = (%eval(&DIM+1)-ceil(j/&DIM))-1;
    z = 255-pixels[j];
    output;
    keep pic_ID x y z;
  end;
run;

* render selected patches;
proc sgrender data=_xyz template=contour;
  dynamic _title="Input Image";
  by pic_ID;
run;

*** add labels ***************************************************************;

* import csv;
proc import
  datafile="&LABEL_FILE"
  out=labels
  dbms=csv
  replace;
run;
proc sort; by orig_name; run;

* join labels to patches;
data l.patches;
  merge l.patches(in=_x) labels;
  by orig_name;
  if _x;
run;

*** create validation set ****************************************************;

data train valid;
  set l.patches;
  if ranuni(12345) < 1-&VALID_PROPORTION then output train;
  else output valid;
run;

*** train 3-layer DNN ********************************************************;

* create necessary dmdb catalog;
proc dmdb
  data=train
  out=_
  dmdbcat=work.patches_cat;
  var pixel_:;
  class label;
  target label;
run;

* train a deep neural net classifier with 3 layers;
proc neural

  data=train
  validdata=valid
  dmdbcat=work.patches_cat
  random=44444;
  performance compile details cpucount=&CORE_COUNT threads=yes;

  nloptions noprint; /* noprint=do not show weight values */
  netoptions decay=0.25; /* decay=L2 penalty */

  archi MLP hidden=3; /* 5-layer network architecture */
  hidden %scan(&HIDDEN_UNIT_LIST, 1, ' ') / id=h1;
  hidden %scan(&HIDDEN_UNIT_LIST, 2, ' ') / id=h2;
  hidden %scan(&HIDDEN_UNIT_LIST, 3, ' ') / id=h3;
  input pixel_0-pixel_%eval(&DIM*&DIM-1) / std=no id=i level=int;
  target label / std=no id=t level=nom;

  /* initialize network */
  /* infan reduces chances of neurons being saturated by random init */
  initial infan=0.1;

  /* pretrain layers seperately */

  /* layer 1 */
  freeze h1->h2;
  freeze h2->h3;
  train maxtime=3600 maxiter=1000;

  /* layer 2 */
  freeze i->h1;
  thaw h1->h2;
  train maxtime=3600 maxiter=1000;

  /* layer 3 */
  freeze h1->h2;
  thaw h2->h3;
  train maxtime=3600 maxiter=1000;

  /* retrain all layers together */

  thaw i->h1;
  thaw h1->h2;
  thaw h2->h3;
  train
    tech=congra
    maxtime=7200
    maxiter=2000
    outest=weights_all
    outfit=_fit
    estiter=1;

  save network=work._net.architecture;

run;

*** model selection **********************************************************;

* find best iteration;
proc sort
  data=_fit(where=(_NAME_='OVERALL'));
  by _V&STAT._;
run;
data _null_;
  set _fit(obs=1);
  call symput('_best_iter', _ITER_);
run;

* plot training error;
proc sort
  data=_fit;
  by _ITER_;
run;
proc sgplot
  data=_fit (where=(_NAME_='OVERALL'));
  series x=_ITER_ y=_&STAT._;
  series x=_ITER_ y=_V&STAT._;
  refline &_best_iter. / axis=x label="Best Validation Error";
  xaxis label='Iteration';
  title 'Iteration Plot';
run;
title;

* score l.patches and generate score code;
proc neural

  data=l.patches
  dmdbcat=work.patches_cat
  network=work._net.architecture
  random=44444;

  * read best weights;
  nloptions noprint;
  initial inest=weights_all(where=(_ITER_=&_best_iter));
  train tech=none;

  * score l.patches;
  score
    data=l.patches
    out=l.DNN_labels (keep=I_label orig_name x y size angle)
    role=test;

  * save score code;
  code file="&OUT_DIR/DNN_score.sas";

quit;

*** conditionally plot classification results ********************************;

*** plot_labels ************************************************************;
* conditionally defines a graph template for each image;
* aligns patches in each class with the original image;
* plots results;
* label_var - name of variable containing class label;
%macro plot_labels(label_var=I_label);

  * define a list of SAS/GRAPH colors;
  %let color_list = red blue cream cyan gold green lilac lime magenta maroon
                    olive orange pink purple red rose salmon violet white
                    yellow;

  * place original image names into macro variable array;
  proc sql noprint;
    create table image_names as
    select distinct orig_name
    from l.originals;
  quit;
  data _null_;
    set image_names end=eof;
    call symput('image'||strip(put(_n_, best.)), strip(orig_name));
    if eof then call symput('n_images', strip(put(_n_, best.)));
  run;

  * loop for each original image;
  %do j=1 %to &n_images;

    proc sql;

      * determine max x value of image;
      select max(x) into: max_x
      from l.originals
      where orig_name = "&&image&j";

      * determine max y value of image;
      select max(y) into: max_y
      from l.originals
      where orig_name = "&&image&j";

      * determine number of classes in image;
      select max(&label_var.) into: n_label
      from l.dnn_labels
      where orig_name = "&&image&j";

    quit;

    * conditionally define gtl template based on image attributes;
    ods path show;
    ods path(prepend) work.templat(update);
    proc template;
      define statgraph contour;
        dynamic _title;
        begingraph;
          entrytitle _title;
          * assign consistent color to class labels across all images;
          discreteattrmap name="class_colors";
            %do i=1 %to &n_label;
              %let color_index = %eval(%sysfunc(mod(%eval(&i-1), &n_label))+1);
              %let _color = %scan(&color_list, &color_index, ' ');
              value "&i" / markerattrs=(color=&_color symbol=circlefilled);
            %end;
          enddiscreteattrmap;
          discreteattrvar attrvar=groupmarkers var=&label_var.
            attrmap="class_colors";
          * layout boundaries and axis attributes;
          layout overlay / aspectratio=1
            xaxisopts=(offsetmin=0 offsetmax=0 linearopts=(viewmin=0
              viewmax=%eval(&max_x.-1) tickvaluelist=(0 %eval(&max_x./2)
              %eval(&max_x.-1))))
            yaxisopts=(offsetmin=0 offsetmax=0 linearopts=(viewmin=0
              viewmax=%eval(&max_y.-1) tickvaluelist=(0 %eval(&max_y./2)
              %eval(&max_y.-1))));
            * contour plot of original image is bottom layer of layout;
            contourplotparm x=x y=y z=z /
              contourtype=gradient nlevels=255
              colormodel=twocolorramp;
            * a dense scatter plot of class patches is overlayed;
            * onto contour plot of original image;
            scatterplot x=scatter_x y=scatter_y /
              group=groupmarkers name="class"
              /* transparency needs to be adjusted for different image sizes */
              markerattrs=(symbol=CircleFilled size=1px transparency=0.35);
          endlayout;
        endgraph;
      end;
    run;

    * loop for each class;
    %do k=1 %to &n_label;

      * create x,y coordinates of class;
      * accounting for size and rotation;
      * sort into correct order to align with original image;
      data tiles_label_expanded;
        set l.dnn_labels (where=(&label_var.="&k." and orig_name="&&image&j"));
        retain &label_var.;
        _x = x;
        _y = %eval(&max_y.-1) - y;
        do i=0 to size-1;
          do j=0 to size-1;
            y = _y - i;
            x = _x + j;
            if angle ne 0 then do;
              pi = constant("pi");
              _angle = (angle/180)*pi;
              x = floor(x*cos(_angle) - y*sin(_angle));
              y = floor(x*sin(_angle) + y*cos(_angle));
            end;
          output;
        end;
      end;
      keep x y orig_name &label_var.;
    run;
    proc sort nodupkey; by orig_name x y; run;

    * if no class for this label, continue;
    %let _rc = %sysfunc(open(tiles_label_expanded));
    %let _nlobs = %sysfunc(attrn(&_rc, NLOBS));
    %let _rc = %sysfunc(close(&_rc));
    %if ^&_nlobs %then %goto continue;

    * align labeled patches with original image;
    data label_merge;
      merge l.originals (where=(orig_name="&&image&j"))
            tiles_label_expanded;
      by orig_name x y;
      * gtl requires a different name for different layout layer attributes;
      if &label_var. ne . then do;
        scatter_x = x;
        scatter_y = y;
      end;
    run;

    * render image;
    proc sgrender data=label_merge template=contour;
      dynamic _title="&&image&j label &k";
    run;

    %continue:

    %end; /* end class loop */

  %end; /* end image loop */

%mend;

*** plot *********************************************************************;
* simple utility macro to load originals.csv and conditionally execute; 
* ploting if a classification task was performed;
%macro plot(_stat=&STAT, _plot_results=&PLOT_RESULTS);

  %if "&_stat" = "MISC" %then %do;
  	  %if &_plot_results %then %do;

        * import original images;
        proc import
          datafile="&OUT_DIR.\originals.csv"
          out=l.originals
          dbms=csv
          replace;
        run;
        proc sort
          data=l.originals
          sortsize=MAX;
          by orig_name x y;
        run;

        %plot_labels;

    %end;

  %end;

%mend; 
%plot;

* end timer;
%put NOTE: Total elapsed time: %sysfunc(putn(%sysevalf(%sysfunc(datetime())-&start), 10.2)) seconds.;
