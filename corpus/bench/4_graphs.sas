******************************************************************************;
* Copyright (c) 2015 by SAS Institute Inc., Cary, NC 27513 USA               *;
*                                                                            *;
* Licensed under the Apache License, Version 2.0 (the "License");            *;
* you may not use this file except in compliance with the License.           *;
* You may obtain a copy of the License at                                    *;
*                                                                            *;
*   http://www.apache.org/licenses/LICENSE-2.0                               *;
*                                                                            *;
* Unless required by applicable law or agreed to in writing, software        *;
* distributed under the License is distributed on an "AS IS" BASIS,          *;
* WITHOUT WARRANTIES OR CONDITIONS OF ANY KIND, either express or implied.   *;
* See the License for the specific language governing permissions and        *;
* limitations under the License.                                             *;
******************************************************************************;

******************************************************************************;
* SECTION 4 - generating analytical graphics                                 *;
******************************************************************************;

*** histograms using PROC SGPLOT *********************************************;

proc sgplot 
	/* binwidth - bin width in terms of histogram variable */
	/* datalabel - display counts or percents for each bin */
	/* showbins - use bins to determine x-axis tickmarks */
	data=sashelp.iris;
	histogram petalwidth /
		binwidth=2
		datalabel=count
		showbins;
run;

*** bubble plots using PROC SGPLOT *******************************************;

proc sgplot
	/* group - color by a categorical variable */
	/* lineattrs - sets the bubble outline color and other outline attributes */
	data=sashelp.iris;
	bubble x=petalwidth y=petallength size=sepallength /
		group=species
		lineattrs=(color=grey);
run;

*** scatter plot with regression information using PROC SGPLOT ***************;

proc sgplot 
	/* clm - confidence limits for mean predicted values */
	/* cli - prediction limits for individual predicted values */
	/* alpha - set threshold for clm and cli limits */
	data=sashelp.iris;
	reg x=petalwidth y=petallength /
	clm cli alpha=0.1;
run;

*** stacked bar chart using PROC SGPLOT **************************************;

proc sgplot 
	/* vbar variable on x-axis */
	/* group - splits vertical bars */
	/* add title */
	data=sashelp.cars;
	vbar type / group=origin;
	title 'Car Types by Country of Origin';
run;

*** correlation heatmap using GTL ********************************************;

* use PROC CORR to create correlation matrix;
* create corr set;
proc corr
	data=sashelp.cars
	outp=corr
	noprint;
run;

* change correlation matrix into x y z contours;
* x and y will be variable names;
* z will be correlation values;
* create xyz set;
data xyz;

	/* define an array out of the numeric variables in corr */
	/* move backwards across array */
	/* to preserve traditional correlation matrix appearance */

	keep x y z;
	set corr(where=(_type_='CORR'));
	array zs[*] _numeric_;
	x = _NAME_;
	do i = dim(zs) to 1 by -1;
		y = vname(zs[i]);
		z = zs[i];
		/* creates a lower triangular matrix */
		if (i < _n_) then z = .;
		output;
	end;
run;

* define a GTL template;
* create the corrheatmap template;
* define a template once, then it can be rendered many times;
proc template;

	/* name the statgraph template */
	/* define a dynamic title for the template */
	/* overlay a continous legend on top of a heatmap */
	/* define overlay axes options */
	/* define heatmap options */
	/* define legend options */

	define statgraph corrheatmap;
		dynamic _title;
		begingraph;
			entrytitle _title;
			layout overlay /
				xaxisopts=(display=(line ticks tickvalues)) 
				yaxisopts=(display=(line ticks tickvalues));
				heatmapparm x=x y=y colorresponse=z / 
					xbinaxis=false ybinaxis=false
					name="heatmap" display=all;
				continuouslegend "heatmap" / 
					orient=vertical location=outside title="Correlation";
			endlayout;
		endgraph;
	end;
run;

* render the defined template using xyz set;
proc sgrender
	data=xyz 
	/* refers to defined template by name */
	template=corrheatmap;
	/* passes in title to template */
	dynamic _title='Correlation Heat Map for Car Information';
run;