******************************************************************************;
* Copyright (c) 2015 by SAS Institute Inc., Cary, NC 27513 USA               *;
*                                                                            *;
* Licensed under the Apache License, Version 2.0 (the "License");            *;
* you may not use this file except in compliance with the License.           *;
* You may obtain a copy of the License at                                    *;
*                                                                            *;
*   http://www.apache.org/licenses/LICENSE-2.0                               *;
*                                                                            *;
* Unless required by applicable law or agreed to in writing, software        *;
* distributed under the License is distributed on an "AS IS" BASIS,          *;
* WITHOUT WARRANTIES OR CONDITIONS OF ANY KIND, either express or implied.   *;
* See the License for the specific language governing permissions and        *;
* limitations under the License.                                             *;
******************************************************************************;

******************************************************************************;
* VARIOUS SAS ROUTINES FOR MNIST DATA:                                       *;
* CALCULATE PIXEL DENSITY                                                    *;
* RESIZE GRID ON WHICH PIXELS CAN BE CENTERED (ODD# X ODD#)                  *;
* VISUALIZE DIGITS                                                           *;
* DENOISING AUTOENCODER                                                      *;
* EXTRACT FEATURES                                                           *;
******************************************************************************;

*** SET WORKING DIRECTORY TO REPO DOWNLOADED FROM GIT;
%let git_repo_data_dir= ;
libname l "&git_repo_data_dir";
%let train_set= Digits_train_sample;

*** SET CPU COUNT;
%let cpu_count= ;

*** ADD PRIMARY KEY TO TRAINING DATA *****************************************;
*** MAKE TEMP COPY - DO NOT ALTER ORIGINAL DATA ******************************;

data &train_set;
	length pic_ID 8;
	set l.&train_set;
	pic_ID= _n_;
run;

*** TRANSFORM PIXELS INTO XY PLANE WITH Z CONTOURS ***************************;

data _xyz;
	set &train_set;
	array pixels pixel0-pixel783;
	do j= 1 to 784;
		pic_ID= pic_ID;
		label= label;
		x= j-28*floor((j-1)/28);
		y= 29-ceil(j/28);
		z= pixels(j);
		output;
	end;
	drop j pixel0-pixel783;
run;

*** CALCULATE PIXEL DENSITY IN XY SPACE **************************************;
*** DENSITY ~ INTENSITY;

data _d;
	set _xyz;
	by pic_ID;
	retain _sum 0;
	_sum= _sum + z;
	if last.pic_ID then do;
		density= _sum/(28*28);
		output;
		_sum= 0;
	end;
	keep pic_ID density;
run;

*** MERGE RESULTS ONTO TRAINING SET;

data &train_set._dn;
	length pic_ID label density pixel0-pixel783 8;
	merge &train_set _d;
	by pic_ID;
run;


*** CENTER *******************************************************************;

*** DIFFICULT TO CENTER DIGITAL IMAGE/CANNOT BE CENTERED ON EVEN BY EVEN GRID;
*** (ORIGIN= 14.5, 14.5)
*** CREATE ODD BY ODD GRID;
*** (ORIGIN= 14, 14);

*** REMOVE OUTER PIXELS;
data &train_set._dn;
	set &train_set._dn;
	drop pixel0-pixel27 pixel28 pixel56 pixel84 pixel112 pixel140 pixel168
		pixel196 pixel224 pixel252 pixel280 pixel308 pixel336 pixel364
		pixel392 pixel420 pixel448 pixel476 pixel504 pixel532 pixel560
		pixel588 pixel616 pixel644 pixel672 pixel700 pixel728 pixel756;
run;

*** REMAP PIXEL NAMES TO 27 BY 27 GRID;
data _new;
	do new= 0 to ((27*27)-1);
		output;
	end;
run;
data _new;
	set _new;
	match= _n_;
run;

data _old;
	do i=0 to 755;
		if mod((i+28),28)^= 0 then do;
			old= i+28;
			output;
		end;
		else continue;
		drop i;
	end;
run;
data _old;
	set _old;
	match= _n_;
run;

filename rnm_stmt "%sysfunc(pathname(WORK))\rnm_stmt.sas";
data _null_;
	merge _new _old;
	by match;
	file rnm_stmt;
	if _n_= 1 then
		put "proc datasets lib=WORK; modify &train_set._dn; rename";
	line= 'pixel'||trim(left(old))||' = pixel'||trim(left(new));
	put line;
	if _n_= 27*27 then put '; run; quit;';
run;
%include rnm_stmt;
filename rnm_stmt;

*** CALCULATE COORDINATES OF BOX SURROUNDING EACH DIGIT;

*** RE-TRANSFORM PIXELS INTO XY PLANE WITH Z CONTOURS;
data _xyz;
	set &train_set._dn;
	array pixels pixel0-pixel728;
	do j= 1 to 729;
		pic_ID= pic_ID;
		label= label;
		x= j-27*floor((j-1)/27);
		y= 28-ceil(j/27);
		z= pixels(j);
		output;
	end;
	drop j pixel0-pixel728;
run;

*** CALCULATE COORDINATES OF BOX SURROUNDING EACH DIGIT;

proc sort
	data= _xyz(keep= pic_ID x z where=(z^= 0))
	out=_max_x
	sortsize= MAX
	threads;
	by pic_ID descending x;
run;
data _max_x;
	set _max_x;
	retain max_x;
	by pic_ID;
	if first.pic_ID then max_x= x;
	if last.pic_ID then do;
		min_x= x;
		output;
	end;
	drop x z;
	run;

proc sort
	data= _xyz(keep= pic_ID y z where=(z^= 0))
	out=_max_y
	sortsize= MAX
	threads;
	by pic_ID descending y;
run;
data _max_y;
	set _max_y;
	retain max_y;
	by pic_ID;
	if first.pic_ID then max_y= y;
	if last.pic_ID then do;
		min_y= y;
		output;
	end;
	drop y z;
run;

*** CENTER DIGITS;

data _xyz;
	merge _xyz _max_x _max_y;
	by pic_ID;
	x_mid= round((max_x - min_x)/2 + min_x,1);
	y_mid= round((max_y - min_y)/2 + min_y,1);
	if x_mid^= 14 then do;
		x_offset= x_mid - 14; /* x offset is units RIGHT of the origin */
		x= x-x_offset;
		if x > 27 then x= 27;
		if x < 1 then x= 1;
	end;
	if y_mid^= 14 then do;
		y_offset= y_mid - 14; /* y offset is units ABOVE the origin */
		y= y-y_offset;
		if y > 27 then y= 27;
		if y < 1 then y= 1;
	end;
	if z^= 0;
run;

*** TRANSFORM FROM XY SPACE TO PIXEL SPACE;

filename rnm_stmt "%sysfunc(pathname(WORK))\rnm_stmt2.sas";
data _null_;
	file rnm_stmt;
	put "data &train_set._dn_cn;";
	put 'set _xyz;';
	put 'by pic_ID;';
	put 'array pixels pixel0-pixel728;';
	put 'retain pixels;';
	do y= 1 to 27;
		do x= 1 to 27;
			_y= 28-y;
			i= (y-1)*27 + x;
			put 'if x= ' x' and y= ' _y' then pixels[' i']= z;';
			put 'if pixels[' i']= . then pixels[' i']= 0;';
			output;
		end;
	end;
	put 'if last.pic_ID then do;';
	put 'output;';
	put 'do i= 1 to 729;';
	put 'pixels[i]= 0;';
	put 'end;';
	put 'end;';
	put 'drop x y z max_x min_x max_y min_y x_offset y_offset i x_mid y_mid;';
	put 'run;';
run;
%include rnm_stmt;
filename rnm_stmt;
*** THIS SET IS NOW SUITABLE FOR SUPERVISED TRAINING IN ENTEPRISE MINER;

*** MACRO USED TO VIEW DATA MANIPULATION RESULTS *****************************;
*** VIEW RANDOM DIGITS *******************************************************;

*** TEMPLATE *****************************************************************;

ods path show;
ods path(prepend) work.templat(update);
proc template; /* DEFINE A GRAPH TEMPLATE */
	define statgraph contour;
		dynamic _title;
		begingraph;
			entrytitle _title;
			layout overlayequated / equatetype= square
				commonaxisopts= (viewmin= 0 viewmax= 26
					tickvaluelist= (0 5 10 15 20 25))
				xaxisopts= (offsetmin= 0 offsetmax= 0)
				yaxisopts= (offsetmin= 0 offsetmax= 0);
			contourplotparm x= x y= y z= z /
				contourtype= gradient nlevels= 255
				colormodel= twocolorramp;
			endlayout;
		endgraph;
	end;
run;

*** MACRO FOR VEIWING DIGITS *************************************************;

%macro view_digits(DS, DIM);

	ods listing close;
	ods html close;
	ods html;

	%let _length= 10;
	%let _nobs= 2000;
	%let _seed= %sysfunc(floor(%sysfunc(time())));

	data _r;
		length r 8;
		do i= 1 to &_length;
			r= floor(&_nobs*ranuni(&_seed));
			output;
		end;
	run;
	proc sort data= _r; by r; run;
	data _null_;
		set _r;
		call symput(left(compress('rand'||_n_)), r);
	run;

	%macro random_digit_string(_length, _nobs);

		%sysfunc(compress(
		%do i= 1 %to %eval(&_length - 1);
			&&rand&i %str(,)
		%end;
		&&rand&i
		))

	%mend random_digit_string;

	data _xyz;
		do i= 1, %random_digit_string(&_length, &_nobs);
			obs= i;
			set &DS point= obs;
			array pixels pixel: ;
			do i= 1 to %eval(&dim*&dim);
				x= (i-&dim*floor((i-1)/&dim))-1;
				y= (%eval(&dim+1)-ceil(i/&dim))-1;
				z= pixels[i];
				output;
				keep pic_ID x y z;
			end;
		end;
		stop;
	run;
	proc sgrender data= _xyz template= contour;
		dynamic _title= "Digit Image";
		by pic_ID;
	run;

%mend;
%view_digits(&train_set._dn_cn, 27);

*** DATA AND METADATA PREP FOR AUTOENCODER ***********************************;

*** CREATE MACROS FOR VARNAMES;
*** DROP PIXELS THAT ARE ALWAYS ZERO;
proc means data= &train_set._dn_cn (keep= pixel:) noprint;
	var pixel:;
	output out= o (keep= _STAT_ pixel: where= (_STAT_= 'MAX'));
run;
proc transpose data= o out= ot; run;
proc sql noprint;
	select _NAME_ into :targets separated by ' '
	from ot
	where col1 ne 0;
	select _NAME_ into :inputs separated by ' corrupted'
	from ot
	where col1 ne 0;
	select _NAME_ into :drops separated by ' '
	from ot
	where col1 eq 0;
quit;
%put &targets;
%let inputs= corrupted&inputs;
%put &inputs;
%put &drops;

*** CREATE CORRUPTED COPIES OF TRAINING DATA;
%let THRESHOLD= 0.05; /* SET BETWEEN 0 AND 1 */
data autoencoderTraining;
	set &train_set._dn_cn (drop= &drops);
	array pixels &targets;
	array corruptedPixels &inputs;
	do i= 1 to dim(pixels);
		if rand('UNIFORM') < &THRESHOLD then corruptedPixels[i]= 0;
		else corruptedPixels[i]= pixels[i];
	end;
	drop i density;
run;

*** CHECK CORRUPTION;
*** (CORRUPTED PIXEL MEAN INTENSITY) ~ (PIXEL MEAN INTENSITY*(1-&THRESHOLD));
proc sql noprint;
	select _NAME_ into :checkVar
	from ot
	where col1 ne 0
	order by rand('UNIFORM');
run;
%put &checkVar;
proc means data= autoencoderTraining mean;
	var &checkVar corrupted&checkVar;
run;

*** TRAIN AUTOENCODER ********************************************************;

*** CREATE REQUIRED DMDB CATALOG;
proc dmdb
	data= autoencoderTraining
	out= autoencoderTrainingDMDB
	dmdbcat= work.autoencoderTrainingCat;
	var &inputs &targets;
	class label;
	id pic_ID;
	target &targets;
run;

*** TRAIN AUTOENCODER;
*** REDIRECT LONG OUTPUT;
ods html close;
ods listing;
filename out 'neural.lst'; /* ENTER FILENAME FOR OUTPUT */
proc printto print= out; run;
proc neural
	data= autoencoderTraining
	dmdbcat= work.autoencoderTrainingCat
	random= 11111;

	performance compile details cpucount= &cpu_count threads= yes;	/* ENTER VALUE FOR CPU COUNT */
									/* DO NOT EXCEED NUMBER OF PHYSICAL CORES */
	netopts decay= 0.5;

	/* DEFAULTS: ACT= TANH COMBINE= LINEAR */
	/* IDS ARE USED AS LAYER INDICATORS - SEE FIGURE 6 */
	/* INPUTS AND TARGETS SHOULD BE STANDARDIZED */
	archi MLP hidden= 5;
	hidden 300 / id= h1;
	hidden 100 / id= h2;
	hidden 2 / id= h3 act= linear;
	hidden 100 / id= h4;
	hidden 300 / id= h5;
	input &inputs / id= i level= int std= none;
	target &targets / act= identity id= t level= int std= none;

	/* BEFORE PRELIMINARY TRAINING WEIGHTS WILL BE RANDOM */
	initial infan= 1;
	prelim 10 preiter= 10;

	/* TRAIN LAYERS SEPARATELY */
	freeze h1->h2;
	freeze h2->h3;
	freeze h3->h4;
	freeze h4->h5;
	train technique= congra maxtime= 10000 maxiter= 1000;

	freeze i->h1;
	thaw h1->h2;
	train technique= congra maxtime= 10000 maxiter= 1000;

	freeze h1->h2;
	thaw h2->h3;
	train technique= congra maxtime= 10000 maxiter= 1000;

	freeze h2->h3;
	thaw h3->h4;
	train technique= congra maxtime= 10000 maxiter= 1000;

	freeze h3->h4;
	thaw h4->h5;
	train technique= congra maxtime= 10000 maxiter= 1000;

	/* RETRAIN ALL LAYERS SIMULTANEOUSLY */
	thaw i->h1;
	thaw h1->h2;
	thaw h2->h3;
	thaw h3->h4;
	train technique= congra maxtime= 10000 maxiter= 1000;

	code file= 'neural.sas'; /* ENTER SCORE CODE FILE PATH - SAME AS NEXT COMMENT BELOW */

run;
proc printto; run;

*** EXTRACT AND PLOT FEATURES ************************************************;

options nosource2;
data extractedFeatures(keep= label h31 h32);
	set autoencoderTraining;
	%include 'neural.sas'; /* ENTER SCORE CODE FILE PATH - SAME AS LAST COMMENT ABOVE */
	if mod(_n_, 10) = 0 then do;
		line= 'Processing line '||strip(put(_n_, best.))||' of 2000.';
		put line;
	end;
run;

ods html;
ods listing close;
proc sort data= extractedFeatures; by label; run;
proc sgplot
	data= extractedFeatures;
	scatter x= h32 y= h31 /
		group= label groupdisplay= cluster clusterwidth= 0
		markercharattrs= (size= 3.75pt)
		markerchar= label
		transparency= 0.3;
run;
