******************************************************************************;
* Copyright (c) 2016 by SAS Institute Inc., Cary, NC 27513 USA               *;
*                                                                            *;
* Licensed under the Apache License, Version 2.0 (the "License")             *;
* you may not use this file except in compliance with the License.           *;
* You may obtain a copy of the License at                                    *;
*                                                                            *;
*   http://www.apache.org/licenses/LICENSE-2.0                               *;
*                                                                            *;
* Unless required by applicable law or agreed to in writing, software        *;
* distributed under the License is distributed on an "AS IS" BASIS,          *;
* WITHOUT WARRANTIES OR CONDITIONS OF ANY KIND, either express or implied.   *;
* See the License for the specific language governing permissions and        *;
* limitations under the License.                                             *;
******************************************************************************;

%let GIT_REPO_DIR = ;

*** system options;

%let NUM_EIGENFACES = 310;
libname faces "&git_repo_dir";

options casuser=<userid> cashost='<host>' casport=<port>;
options casinstall='/opt/vb005/laxno/TKGrid';

cas mysess1 host="<host>" port=<port> user=<userid>;

libname mycas sasioca sessref=mysess1 ;

data mycas.allfaces;
    set faces.allfaces;
run;

proc partition data=mycas.allfaces samppct = 10 partind ;
    by id;
    output out=mycas.allfacespart ;
run;

proc pca data=mycas.allfacespart(where=(_PartInd_=1))
              n=&NUM_EIGENFACES method=NIPALS (noscale);
    var feature1-feature4096;
    display /excludeall;
    displayout Loadings=loadings;
    output out=mycas.normalizedfaces STD SCORE COPYVARS=ID;
    code file = 'pcaCode.sas'
run;

data mycas.pcaScore;
    set mycas.allfacespart(where=(_PartInd_=0));
    %include pcaCode;
run;

data mycas.normalizedfaces;
    set mycas.normalizedfaces mycas.pcaScore;
run;

proc logselect data=mycas.normalizedfaces;
    model ID=feature1-feature4096;
    output out=mycas.pred COPYVARS=ID;
run;

