%window welcome color=white
           #5 @28 'Welcome to SAS.' attr=highlight
              color=blue
           #7 @15
              "You are executing Release &sysver on &sysday, &sysdate.."
           #12 @29 'Press ENTER to continue.';