******************************************************************************;
* Copyright (c) 2015 by SAS Institute Inc., Cary, NC 27513 USA               *;
*                                                                            *;
* Licensed under the Apache License, Version 2.0 (the "License");            *;
* you may not use this file except in compliance with the License.           *;
* You may obtain a copy of the License at                                    *;
*                                                                            *;
*   http://www.apache.org/licenses/LICENSE-2.0                               *;
*                                                                            *;
* Unless required by applicable law or agreed to in writing, software        *;
* distributed under the License is distributed on an "AS IS" BASIS,          *;
* WITHOUT WARRANTIES OR CONDITIONS OF ANY KIND, either express or implied.   *;
* See the License for the specific language governing permissions and        *;
* limitations under the License.                                             *;
******************************************************************************;

******************************************************************************;
* simple random projections example:                                         *;
* determine conservative number of random vectors to generate                *;
* generate random uniform i.i.d. vectors                                     *;
* execute original_features*transpose(random_generated_vectors) dot product  *;
*    to complete projection                                                  *;
******************************************************************************;

* set working directory;
%let git_repo_dir = ;
libname l "&git_repo_dir";

* conservatively determine the number of needed random vectors;
* choose epsilon, distance distortion introduced by a random projection is;
* factor of (1 +- epsilon);
%let epsilon = 0.1;
%macro determine_n_features(ds, epsilon);

	%global n_features;

	%let dsid = %sysfunc(open(&ds));
	%let nobs = %sysfunc(attrn(&dsid, NLOBS));
	%let _rc = %sysfunc(close(&dsid));

	data _null_;
		n_features = 4*log(&nobs)/(((&epsilon**2)/2)
			- ((&epsilon**3)/3));
		call symput('n_features', strip(put(ceil(n_features), best.)));
	run;

	%put n_features=&n_features.;

%mend; 
%determine_n_features(l.original_features, &epsilon);

* create Gaussian i.i.d. random features with data step;
%macro create_random_vectors(ds, k, out=random_generated_vectors, seed=12345);

	* create a macro array of input names in the training data;
	* necessary for using PROC SCORE;
	proc contents
		data=&ds.(drop=id) /* do not use id variable in calculation */
		out=names(keep=name)
		noprint;
	run;
	data _null_;
		set names end=eof;
		call symput('name'||strip(put(_n_, best.)), name);
		if eof then call symput('n_names', strip(put(_n_, best.)));
	run;

	* generate random row vectors for PROC SCORE;
	data &out;
		call streaminit(&seed);
		do i=1 to &k;
			_TYPE_='SCORE';
			_NAME_=compress('random_feature'||strip(put(i, best.)));
			%do j=1 %to &n_names;
				&&name&j = 2*rand('NORMAL')-1;
			%end;
 			output;
		end;
		drop i;
	run;

%mend;
%create_random_vectors(l.original_features, &n_features);

* project data onto generated random vectors with PROC SCORE;
* executes original_features*transpose(generated_random_vectors) dot product;
proc score
	data=l.original_features
	type='SCORE' /* requests dot product multiplication */
	score=random_generated_vectors
	out=random_features(keep=random_feature:)
	nostd;
	var BE_: STD_:; /* do not use id variable in calculation */
	id id;
run;
