"""Minimal msgpack reader (the subset rmp-serde emits); used instead of msgspec/msgpack, which are not installed."""
import struct
def unpack(b, i=0):
    t = b[i]
    if t <= 0x7f: return t, i+1
    if 0x80 <= t <= 0x8f: return _map(b, i+1, t & 0x0f)
    if 0x90 <= t <= 0x9f: return _arr(b, i+1, t & 0x0f)
    if 0xa0 <= t <= 0xbf: n = t & 0x1f; return b[i+1:i+1+n].decode('utf-8'), i+1+n
    if t == 0xc0: return None, i+1
    if t == 0xc2: return False, i+1
    if t == 0xc3: return True, i+1
    if t == 0xc4: n = b[i+1]; return bytes(b[i+2:i+2+n]), i+2+n
    if t == 0xc5: n = struct.unpack('>H', b[i+1:i+3])[0]; return bytes(b[i+3:i+3+n]), i+3+n
    if t == 0xc6: n = struct.unpack('>I', b[i+1:i+5])[0]; return bytes(b[i+5:i+5+n]), i+5+n
    if t == 0xca: return struct.unpack('>f', b[i+1:i+5])[0], i+5
    if t == 0xcb: return struct.unpack('>d', b[i+1:i+9])[0], i+9
    if t == 0xcc: return b[i+1], i+2
    if t == 0xcd: return struct.unpack('>H', b[i+1:i+3])[0], i+3
    if t == 0xce: return struct.unpack('>I', b[i+1:i+5])[0], i+5
    if t == 0xcf: return struct.unpack('>Q', b[i+1:i+9])[0], i+9
    if t == 0xd0: return struct.unpack('>b', b[i+1:i+2])[0], i+2
    if t == 0xd1: return struct.unpack('>h', b[i+1:i+3])[0], i+3
    if t == 0xd2: return struct.unpack('>i', b[i+1:i+5])[0], i+5
    if t == 0xd3: return struct.unpack('>q', b[i+1:i+9])[0], i+9
    if t == 0xd9: n = b[i+1]; return b[i+2:i+2+n].decode('utf-8'), i+2+n
    if t == 0xda: n = struct.unpack('>H', b[i+1:i+3])[0]; return b[i+3:i+3+n].decode('utf-8'), i+3+n
    if t == 0xdc: return _arr(b, i+3, struct.unpack('>H', b[i+1:i+3])[0])
    if t == 0xdd: return _arr(b, i+5, struct.unpack('>I', b[i+1:i+5])[0])
    if t == 0xde: return _map(b, i+3, struct.unpack('>H', b[i+1:i+3])[0])
    if t >= 0xe0: return t - 256, i+1
    raise ValueError(hex(t))
def _arr(b, i, n):
    out = []
    for _ in range(n): v, i = unpack(b, i); out.append(v)
    return out, i
def _map(b, i, n):
    out = {}
    for _ in range(n): k, i = unpack(b, i); v, i = unpack(b, i); out[k] = v
    return out, i
