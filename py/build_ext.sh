#!/bin/bash
# Build the Python extension module from the current /repo working tree, in a scratch copy
# (the crate's build.rs rewrites src/sas_lexer/*.py, which must never happen in /repo).
# Output: /verif/py/build/pkg/_sas_lexer_rust.so  and  /verif/py/build/generated/*.py
set -u
HERE="$(cd "$(dirname "${BASH_SOURCE[0]}")" && pwd)"
REPO="${VERIF_REPO:-/repo}"
SCRATCH="${VERIF_C20_SCRATCH:-/tmp/verif-c20-scratch}"
export CARGO_NET_OFFLINE=true
unset RUSTFLAGS CARGO_ENCODED_RUSTFLAGS 2>/dev/null || true
rm -rf "$SCRATCH"; mkdir -p "$SCRATCH" "$HERE/build/pkg" "$HERE/build/generated" "$HERE/target"
trap 'rm -rf "$SCRATCH"' EXIT
rsync -a --exclude target --exclude .git --exclude .venv --exclude node_modules "$REPO/" "$SCRATCH/repo/" || exit 2
( cd "$SCRATCH/repo" && CARGO_TARGET_DIR="$HERE/target" cargo build -p sas-lexer-py --features pyo3/extension-module --offline ) > "$HERE/build/build.log" 2>&1 || { echo "extension build failed:" >&2; tail -n 25 "$HERE/build/build.log" >&2; exit 2; }
SO="$(ls -t "$HERE"/target/debug/lib_sas_lexer_rust.so 2>/dev/null | head -1)"
[ -n "$SO" ] || { echo "built library not found" >&2; exit 2; }
cp "$SO" "$HERE/build/pkg/_sas_lexer_rust.so" || exit 2
rm -f "$HERE"/build/generated/*.py
cp "$SCRATCH"/repo/src/sas_lexer/*.py "$HERE/build/generated/" || exit 2
# the reference dumper: a plain Rust program that depends on the lexer crate exactly as the binding does (same
# dependency line, same workspace, same lock file, same profile) and prints what that crate returns; if it cannot be
# built (the crate's API changed), the comparison is skipped and the evidence says so
rm -f "$HERE/build/refdump"
DEP="$(sed -n '/^\[dependencies\]/,/^\[/p' "$SCRATCH/repo/crates/sas-lexer-py/Cargo.toml" | grep -E '^sas-lexer[ =]' | head -1)"
if [ -n "$DEP" ]; then
  mkdir -p "$SCRATCH/repo/crates/verif-refdump/src"
  cp "$HERE/refdump/src/main.rs" "$SCRATCH/repo/crates/verif-refdump/src/main.rs"
  SB="$(sed -n '/^\[dependencies\]/,/^\[/p' "$SCRATCH/repo/crates/sas-lexer-py/Cargo.toml" | grep -E '^serde_bytes[ =]' | head -1)"
  printf '[package]\nname = "verif-refdump"\nversion = "0.0.0"\nedition = "2021"\npublish = false\n\n[dependencies]\n%s\nrmp-serde = { workspace = true }\n%s\n' "$DEP" "${SB:-serde_bytes = \"0.11\"}" > "$SCRATCH/repo/crates/verif-refdump/Cargo.toml"
  if ( cd "$SCRATCH/repo" && CARGO_TARGET_DIR="$HERE/target" cargo build -p verif-refdump --offline ) > "$HERE/build/refdump-build.log" 2>&1; then
    cp "$HERE/target/debug/verif-refdump" "$HERE/build/refdump"
  fi
fi
# which lexer crate did the binding link? (recorded in the evidence)
( cd "$SCRATCH/repo" && CARGO_TARGET_DIR="$HERE/target" cargo tree -p sas-lexer-py --offline --depth 1 2>/dev/null | grep -E "sas-lexer " | head -1 ) > "$HERE/build/linked_lexer.txt" || true
exit 0
