#!/bin/bash
# ./check C20 ends up here:  check_c20.sh <tier> <seed> [replay]
set -u
HERE="$(cd "$(dirname "${BASH_SOURCE[0]}")" && pwd)"
ROOT="$(cd "$HERE/.." && pwd)"
TIER="${1:-quick}"; SEED="${2:-1}"; REPLAY="${3:-}"
export CARGO_NET_OFFLINE=true VERIF_ROOT="$ROOT"
unset RUSTFLAGS CARGO_ENCODED_RUSTFLAGS CARGO_TARGET_DIR 2>/dev/null || true
mkdir -p "$ROOT/logs" "$ROOT/evidence"
# the Rust harness exports grammar programs and soups (same generators as the other checks)
python3 "$ROOT/tools/gen_shadow.py" >/dev/null || exit 2
( cd "$ROOT/harness" && cargo build --release --offline ) >"$ROOT/logs/build-C20.log" 2>&1 || { echo "INCONCLUSIVE: harness build failed" >&2; tail -n 20 "$ROOT/logs/build-C20.log" >&2; exit 2; }
# the extension module is rebuilt from the working tree on every run
"$HERE/build_ext.sh" || { echo "INCONCLUSIVE: extension build failed" >&2; exit 2; }
PY="$(command -v python3-vt || true)"
[ -n "$PY" ] || { echo "INCONCLUSIVE: python3-vt (tooling venv with hypothesis) not found" >&2; exit 2; }
# watchdog: expiry is exit 2, never a verdict
LIMIT=$([ "$TIER" = "thorough" ] && echo 3600 || echo 900)
# panics inside the extension print through Rust's default hook: keep them out of the way
RUST_BACKTRACE=0 timeout -k 10 "$LIMIT" "$PY" "$HERE/check_c20.py" "$TIER" "$SEED" "$REPLAY" 2>"$ROOT/logs/c20-stderr.log"
RC=$?
grep -E "^(INCONCLUSIVE|Traceback|[A-Za-z]*Error)" "$ROOT/logs/c20-stderr.log" >&2 || true
if [ $RC -eq 124 ] || [ $RC -eq 137 ]; then echo "INCONCLUSIVE: watchdog expired" >&2; exit 2; fi
if [ $RC -ne 0 ] && [ $RC -ne 1 ]; then echo "INCONCLUSIVE: C20 driver exited with status $RC" >&2; exit 2; fi
exit $RC
