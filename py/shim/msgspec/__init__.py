"""Minimal stand-in for the `msgspec` package (not installable offline), just large enough to import
and run the hand-written part of the Python package (src/sas_lexer/{token,error,lexer}.py):
array-like `Struct` classes decoded positionally from msgpack arrays by a typed `Decoder`.

Deliberately lenient where the real library's behaviour is not needed to state property C20
(extra array elements are ignored, ints are accepted for floats), strict where the contract
depends on it (a missing required field, a value that is not a member of an Enum type, a value of
the wrong kind for bytes / str / int / Struct raise ValidationError)."""
import enum, types, typing, collections.abc

__version__ = "0.0-verif-shim"


class MsgspecError(Exception):
    pass


class DecodeError(MsgspecError):
    pass


class ValidationError(DecodeError):
    pass


NODEFAULT = object()


def field(default=NODEFAULT, default_factory=NODEFAULT, name=None):
    if default_factory is not NODEFAULT:
        return _Field(default_factory=default_factory)
    return _Field(default=default)


class _Field:
    def __init__(self, default=NODEFAULT, default_factory=NODEFAULT):
        self.default, self.default_factory = default, default_factory


class Struct:
    __struct_fields__ = ()
    __struct_config__ = {}

    def __init_subclass__(cls, array_like=None, gc=None, frozen=None, **kw):
        super().__init_subclass__()
        cfg = dict(getattr(cls, "__struct_config__", {}))
        for k, v in (("array_like", array_like), ("gc", gc), ("frozen", frozen)):
            if v is not None:
                cfg[k] = v
        cfg.update(kw)
        cls.__struct_config__ = cfg
        fields = []
        for base in reversed(cls.__mro__):
            for n in getattr(base, "__dict__", {}).get("__annotations__", {}):
                if n not in fields and not n.startswith("__"):
                    fields.append(n)
        cls.__struct_fields__ = tuple(fields)
        defaults = {}
        for n in fields:
            if n in cls.__dict__:
                defaults[n] = cls.__dict__[n]
        cls.__struct_defaults_map__ = {**getattr(cls, "__struct_defaults_map__", {}), **defaults}

    def __init__(self, *args, **kw):
        names = self.__struct_fields__
        if len(args) > len(names):
            raise TypeError("too many positional arguments")
        vals = dict(zip(names, args))
        for k, v in kw.items():
            if k not in names or k in vals:
                raise TypeError(f"unexpected argument {k}")
            vals[k] = v
        for n in names:
            if n not in vals:
                d = self.__struct_defaults_map__.get(n, NODEFAULT)
                if isinstance(d, _Field):
                    d = d.default_factory() if d.default_factory is not NODEFAULT else d.default
                if d is NODEFAULT:
                    raise TypeError(f"missing required argument {n!r}")
                vals[n] = d
            object.__setattr__(self, n, vals[n])

    def __setattr__(self, k, v):
        if self.__struct_config__.get("frozen"):
            raise AttributeError("immutable type")
        object.__setattr__(self, k, v)

    def __eq__(self, o):
        return type(o) is type(self) and all(getattr(self, n) == getattr(o, n) for n in self.__struct_fields__)

    def __hash__(self):
        return hash(tuple(getattr(self, n) for n in self.__struct_fields__))

    def __repr__(self):
        return f"{type(self).__name__}(" + ", ".join(f"{n}={getattr(self, n)!r}" for n in self.__struct_fields__) + ")"


def _hints(cls):
    try:
        return typing.get_type_hints(cls)
    except Exception:
        return dict(getattr(cls, "__annotations__", {}))


def convert(val, tp=typing.Any, path="$"):
    if tp is typing.Any or tp is None and val is None:
        return val
    if tp is type(None):
        if val is None:
            return None
        raise ValidationError(f"Expected `null`, got `{type(val).__name__}` - at `{path}`")
    origin = typing.get_origin(tp)
    args = typing.get_args(tp)
    if origin is typing.Union or isinstance(tp, types.UnionType):
        errs = []
        # the same kind-directed choice the real library makes: null, then arrays to tuple/list/Struct, then scalars
        for a in args:
            try:
                if a is type(None):
                    if val is None:
                        return None
                    continue
                return convert(val, a, path)
            except ValidationError as e:
                errs.append(str(e))
        raise ValidationError(f"Expected one of {args}, got `{type(val).__name__}` - at `{path}`")
    if origin in (list, collections.abc.Sequence, collections.abc.MutableSequence) or tp in (list, collections.abc.Sequence):
        if not isinstance(val, (list, tuple)):
            raise ValidationError(f"Expected `array`, got `{type(val).__name__}` - at `{path}`")
        it = args[0] if args else typing.Any
        return [convert(x, it, f"{path}[{i}]") for i, x in enumerate(val)]
    if origin is tuple or tp is tuple:
        if not isinstance(val, (list, tuple)):
            raise ValidationError(f"Expected `array`, got `{type(val).__name__}` - at `{path}`")
        if not args:
            return tuple(val)
        if len(args) == 2 and args[1] is Ellipsis:
            return tuple(convert(x, args[0], f"{path}[{i}]") for i, x in enumerate(val))
        if len(val) != len(args):
            raise ValidationError(f"Expected `array` of length {len(args)}, got {len(val)} - at `{path}`")
        return tuple(convert(x, a, f"{path}[{i}]") for i, (x, a) in enumerate(zip(val, args)))
    if isinstance(tp, type):
        if issubclass(tp, Struct):
            names = tp.__struct_fields__
            if tp.__struct_config__.get("array_like"):
                if not isinstance(val, (list, tuple)):
                    raise ValidationError(f"Expected `array`, got `{type(val).__name__}` - at `{path}`")
                h = _hints(tp)
                required = [n for n in names if tp.__struct_defaults_map__.get(n, NODEFAULT) is NODEFAULT]
                if len(val) < len(required):
                    raise ValidationError(f"Expected `array` of at least length {len(required)}, got {len(val)} - at `{path}`")
                kw = {n: convert(x, h.get(n, typing.Any), f"{path}[{i}]") for i, (n, x) in enumerate(zip(names, val))}
                return tp(**kw)
            if not isinstance(val, dict):
                raise ValidationError(f"Expected `object`, got `{type(val).__name__}` - at `{path}`")
            h = _hints(tp)
            return tp(**{k: convert(v, h.get(k, typing.Any), f"{path}.{k}") for k, v in val.items() if k in names})
        if issubclass(tp, enum.Enum):
            try:
                return tp(val)
            except Exception:
                raise ValidationError(f"Invalid enum value {val!r} - at `{path}`")
        if tp is bool:
            if isinstance(val, bool):
                return val
            raise ValidationError(f"Expected `bool`, got `{type(val).__name__}` - at `{path}`")
        if tp is int:
            if isinstance(val, int) and not isinstance(val, bool):
                return val
            raise ValidationError(f"Expected `int`, got `{type(val).__name__}` - at `{path}`")
        if tp is float:
            if isinstance(val, float):
                return val
            if isinstance(val, int) and not isinstance(val, bool):
                return float(val)
            raise ValidationError(f"Expected `float`, got `{type(val).__name__}` - at `{path}`")
        if tp is str:
            if isinstance(val, str):
                return val
            raise ValidationError(f"Expected `str`, got `{type(val).__name__}` - at `{path}`")
        if tp in (bytes, bytearray):
            if isinstance(val, (bytes, bytearray, memoryview)):
                return tp(val)
            raise ValidationError(f"Expected `bytes`, got `{type(val).__name__}` - at `{path}`")
    return val


from . import msgpack  # noqa: E402
