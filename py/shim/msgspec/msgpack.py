"""msgspec.msgpack stand-in: decode with the harness's own msgpack reader, then convert to the requested type."""
import typing
import msgpack_min as _mp
from . import convert as _convert, DecodeError, ValidationError  # noqa: F401


class Decoder:
    def __init__(self, type=typing.Any, **kw):
        self.type = type

    def decode(self, buf):
        try:
            val, end = _mp.unpack(bytes(buf))
        except Exception as e:
            raise DecodeError(f"invalid msgpack: {e}")
        if end != len(buf):
            raise DecodeError("trailing characters")
        return _convert(val, self.type)


def decode(buf, type=typing.Any, **kw):
    return Decoder(type).decode(buf)
