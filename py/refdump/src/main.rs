//! Reference for C20: what the lexer crate *linked by the binding* returns for a source, serialized the way the
//! binding documents it (resolved tokens, errors, literal buffer), without Python in between.
//! Protocol (stdin/stdout): request = u32-le length + UTF-8 source; reply = tag (0 ok, 1 lexer error, 2 panic) + u32-le
//! length + msgpack bytes.
use sas_lexer::{lex_program, LexResult};
use serde_bytes::Bytes;
use std::io::{Read, Write};

fn main() {
    std::panic::set_hook(Box::new(|_| {}));
    let mut stdin = std::io::stdin().lock();
    let mut out = std::io::stdout().lock();
    loop {
        let mut lb = [0u8; 4];
        if stdin.read_exact(&mut lb).is_err() {
            break;
        }
        let n = u32::from_le_bytes(lb) as usize;
        let mut buf = vec![0u8; n];
        if stdin.read_exact(&mut buf).is_err() {
            break;
        }
        let Ok(src) = String::from_utf8(buf) else { break };
        let res = std::panic::catch_unwind(|| match lex_program(&src) {
            Ok(LexResult { buffer, errors, .. }) => {
                let tok_vec = buffer.into_resolved_token_vec();
                rmp_serde::encode::to_vec(&(tok_vec, errors, Bytes::new(buffer.string_literals_buffer().as_bytes()))).ok()
            }
            Err(_) => None,
        });
        let (tag, data) = match res {
            Ok(Some(d)) => (0u8, d),
            Ok(None) => (1u8, vec![]),
            Err(_) => (2u8, vec![]),
        };
        if out.write_all(&[tag]).is_err() || out.write_all(&(data.len() as u32).to_le_bytes()).is_err() || out.write_all(&data).is_err() || out.flush().is_err() {
            break;
        }
    }
}
