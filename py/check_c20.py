#!/usr/bin/env python3
"""C20: the Python binding gives Python code the same positional guarantees.

Hypothesis (seeded by VERIF_SEED, no example database, no deadline) against the extension module
built from the current tree (py/build_ext.sh).  The msgpack payload is decoded with the harness's
own minimal reader (msgpack_min.py) and mapped positionally through the field order parsed with
`ast` from the shipped token.py / error.py; enum membership uses the shipped enum modules.

usage: check_c20.py <tier> <seed> [replay-file]
exit 0 held / 1 VIOLATION / 2 inconclusive
"""
import ast, hashlib, importlib.util, json, math, os, re, resource, subprocess, sys, time

HERE = os.path.dirname(os.path.abspath(__file__))
ROOT = os.path.abspath(os.path.join(HERE, ".."))
REPO = os.environ.get("VERIF_REPO", "/repo")
sys.path.insert(0, os.path.join(HERE, "build", "pkg"))
sys.path.insert(0, HERE)

tier = sys.argv[1] if len(sys.argv) > 1 else "quick"
seed = int(sys.argv[2]) if len(sys.argv) > 2 else 1
replay = sys.argv[3] if len(sys.argv) > 3 and sys.argv[3] else None

# a runaway allocation inside the extension becomes MemoryError / abort => exit 2, never an OOM kill
try:
    resource.setrlimit(resource.RLIMIT_AS, (8 << 30, 8 << 30))
except Exception:
    pass

import msgpack_min as mp

try:
    import _sas_lexer_rust as ext
except Exception as e:  # pragma: no cover
    print(f"INCONCLUSIVE: cannot import the extension module: {e}", file=sys.stderr)
    sys.exit(2)

from hypothesis import given, settings, seed as hseed, strategies as st, HealthCheck, Phase

# The public Python API (src/sas_lexer/lexer.py: lex_program_from_str) decodes the payload with msgspec, which cannot
# be installed offline. py/shim/msgspec is a minimal stand-in (array-like Structs, typed msgpack Decoder); with it the
# package's own hand-written files are imported unchanged from the working tree and run end to end.
API = None
API_NOTE = None
try:
    import shutil
    site = os.path.join(HERE, "build", "site")
    shutil.rmtree(site, ignore_errors=True)
    os.makedirs(os.path.join(site, "sas_lexer"))
    for fn in os.listdir(os.path.join(REPO, "src", "sas_lexer")):
        if fn.endswith((".py", ".pyi", ".typed")):
            shutil.copy(os.path.join(REPO, "src", "sas_lexer", fn), os.path.join(site, "sas_lexer", fn))
    shutil.copy(os.path.join(HERE, "build", "pkg", "_sas_lexer_rust.so"), os.path.join(site, "sas_lexer", "_sas_lexer_rust.so"))
    sys.path.insert(0, os.path.join(HERE, "shim"))
    sys.path.insert(0, site)
    import sas_lexer as API  # noqa: E402
    if not callable(getattr(API, "lex_program_from_str", None)):
        API_NOTE = "import-error:the package does not export lex_program_from_str"
        API = None
except SyntaxError as e:
    API_NOTE = f"import-error:SyntaxError in {os.path.basename(e.filename or '?')} line {e.lineno}"
    API = None
except Exception as e:  # the stand-in may lack something a new version of the package uses: skip this half, say so
    API_NOTE = f"skipped:{type(e).__name__}: {e}"
    API = None


def load_module(path, name):
    spec = importlib.util.spec_from_file_location(name, path)
    mod = importlib.util.module_from_spec(spec)
    spec.loader.exec_module(mod)
    return mod


PKG = os.path.join(REPO, "src", "sas_lexer")
TT = load_module(os.path.join(PKG, "token_type.py"), "v_token_type").TokenType
TC = load_module(os.path.join(PKG, "token_channel.py"), "v_token_channel").TokenChannel
EK_MOD = load_module(os.path.join(PKG, "error_kind.py"), "v_error_kind")
EK = EK_MOD.ErrorKind


def class_fields(path, cls):
    tree = ast.parse(open(path, encoding="utf-8").read())
    for n in tree.body:
        if isinstance(n, ast.ClassDef) and n.name == cls:
            return [s.target.id for s in n.body if isinstance(s, ast.AnnAssign)]
    raise SystemExit(f"class {cls} not found in {path}")


TF = class_fields(os.path.join(PKG, "token.py"), "Token")
EF = class_fields(os.path.join(PKG, "error.py"), "Error")
NEEDED_T = ["channel", "token_type", "token_index", "start", "stop", "line", "column", "end_line", "end_column", "payload"]
NEEDED_E = ["error_kind", "at_byte_offset", "at_char_offset", "on_line", "at_column", "last_token_index"]

# ---------------------------------------------------------------------------------- known findings
KF = []
try:
    for f in json.load(open(os.path.join(ROOT, "known_findings.json"), encoding="utf-8")).get("findings", []):
        if f.get("property") == "C20" and f.get("status") == "known":
            KF.append(f)
except Exception:
    pass
kf_hits = {}


def known(sig):
    for f in KF:
        p = f["signature"]
        if (p.endswith("*") and sig.startswith(p[:-1])) or p == sig:
            return f
    return None


# ---------------------------------------------------------------------------------- oracle
QUOTED = {"STRING_LITERAL", "BIT_TESTING_LITERAL", "DATE_LITERAL", "DATE_TIME_LITERAL", "NAME_LITERAL", "TIME_LITERAL", "HEX_STRING_LITERAL"}
SUFFIX_LEN = {"STRING_LITERAL": 0, "DATE_TIME_LITERAL": 2}


def unq_pct(text):
    out, j, had = [], 0, False
    while j < len(text):
        if text[j] == "%" and j + 1 < len(text) and text[j + 1] in "'\"%()":
            out.append(text[j + 1]); j += 2; had = True
        else:
            out.append(text[j]); j += 1
    return "".join(out), had


def hex_decode(body):
    cl = body.replace(",", "")
    if len(cl) % 2 or any(c not in "0123456789abcdefABCDEF" for c in cl):
        return None
    return "".join(chr(int(cl[i:i + 2], 16)) for i in range(0, len(cl), 2))


class PanicInExtension(Exception):
    pass


def lex(src):
    try:
        return ext._lex_program_from_str(src)
    except BaseException as e:
        if type(e).__name__ == "PanicException":
            raise PanicInExtension(str(e).splitlines()[0] if str(e) else "panic")
        raise


class Reference:
    """the lexer crate linked by the binding, driven directly (py/refdump): what the extension returns must be what
    that crate returns for the same text"""

    def __init__(self):
        self.path = os.path.join(HERE, "build", "refdump")
        self.proc = None
        self.available = os.path.exists(self.path)

    def get(self, src):
        """(tag, payload) with tag 0 ok / 1 lexer error / 2 panic or crash; None if there is no reference"""
        if not self.available:
            return None
        try:
            data = src.encode("utf-8")
        except UnicodeEncodeError:
            return None
        for _ in range(2):
            if self.proc is None or self.proc.poll() is not None:
                self.proc = subprocess.Popen([self.path], stdin=subprocess.PIPE, stdout=subprocess.PIPE, stderr=subprocess.DEVNULL)
            try:
                self.proc.stdin.write(len(data).to_bytes(4, "little") + data); self.proc.stdin.flush()
                head = self.proc.stdout.read(5)
                if len(head) < 5:
                    raise BrokenPipeError
                n = int.from_bytes(head[1:], "little")
                body = self.proc.stdout.read(n)
                if len(body) < n:
                    raise BrokenPipeError
                return head[0], body
            except (BrokenPipeError, OSError):
                # the reference process died on this input (stack overflow, abort): that is "no result" there
                try:
                    self.proc.kill()
                except Exception:
                    pass
                self.proc = None
                return 2, b""
        return 2, b""


REF = Reference()


def first_difference(a, b, path="payload"):
    if type(a) is not type(b) and not (isinstance(a, (bytes, bytearray)) and isinstance(b, (bytes, bytearray))):
        return f"{path}: {type(a).__name__} {a!r:.60} vs {type(b).__name__} {b!r:.60}"
    if isinstance(a, list):
        if len(a) != len(b):
            return f"{path}: {len(a)} vs {len(b)} entries"
        for i, (x, y) in enumerate(zip(a, b)):
            d = first_difference(x, y, f"{path}[{i}]")
            if d:
                return d
        return None
    if isinstance(a, float):
        return None if (a == b and math.copysign(1.0, a) == math.copysign(1.0, b)) or (a != a and b != b) else f"{path}: {a!r} vs {b!r}"
    return None if a == b else f"{path}: {a!r:.80} vs {b!r:.80}"


def check(src, must_return, given_raw=None):
    """returns (violations [(rule, signature, message)], nontrivial, labels)"""
    v = []
    labels = []
    try:
        raw = lex(src) if given_raw is None else given_raw
    except PanicInExtension as e:
        if must_return:
            msg = "".join(c if not c.isdigit() else "#" for c in str(e))[:90]
            return [("must-return", f"must-return:panic:{msg}", f"the extension panicked on a well-formed / real-world source: {e}")], True, ["panic"]
        return [], False, ["panic-outside-property"]
    except MemoryError:
        raise
    except Exception as e:
        # the binding refused the input with an ordinary Python exception (e.g. UnicodeEncodeError for a str holding an
        # unpaired surrogate): no result was returned, so the contract says nothing - unless the source had to be accepted
        if must_return:
            return [("must-return", f"must-return:exception:{type(e).__name__}", f"the extension raised {type(e).__name__} on a well-formed / real-world source: {e}")], True, ["exception"]
        return [], False, [f"refused:{type(e).__name__}"]
    try:
        val, end = mp.unpack(raw)
    except Exception as e:
        return [("decode", "decode", f"payload is not valid msgpack: {e}")], True, labels
    if end != len(raw) or not (isinstance(val, list) and len(val) == 3):
        return [("decode", "decode:not-a-3-array", f"payload does not decode into a 3-array (decoded {type(val).__name__}, consumed {end}/{len(raw)})")], True, labels
    # differential: the same text through the linked lexer crate without Python in between
    ref = REF.get(src) if given_raw is None else None
    if ref is None:
        labels.append("reference:none")
    elif ref[0] != 0:
        labels.append("reference:no-result-there")
    elif ref[1] == raw:
        labels.append("reference:identical-bytes")
    else:
        try:
            rv, rend = mp.unpack(ref[1])
            d = first_difference([val], [rv])
        except Exception as e:
            d = f"reference payload does not decode: {e}"
        if d:
            v.append(("reference", "reference:differs", f"the extension's result differs from what the linked lexer crate returns for the same text: {d} (extension vs crate)"))
        else:
            labels.append("reference:equal-after-decoding")
    toks, errs, lit = val
    if not isinstance(toks, list) or not isinstance(errs, list) or not isinstance(lit, (bytes, bytearray)):
        return [("decode", "decode:member-types", f"expected (list, list, bytes), got ({type(toks).__name__}, {type(errs).__name__}, {type(lit).__name__})")], True, labels
    n = len(src)
    bom = 1 if src.startswith("﻿") else 0
    line = [1] * (n + 1); col = [0] * (n + 1); l, c = 1, 0
    for i, ch in enumerate(src):
        line[i], col[i] = l, c
        if ch == "\n":
            l += 1; c = 0
        elif i == 0 and ch == "﻿":
            c = 0
        else:
            c += 1
    line[n], col[n] = l, c
    pos = bom
    litpos = 0
    err_on = {}
    for e in errs:
        if isinstance(e, list) and len(e) == len(EF):
            d = dict(zip(EF, e))
            err_on.setdefault(d.get("last_token_index"), []).append(d.get("error_kind"))

    def ekname(x):
        try:
            return EK(x).name
        except Exception:
            return None

    nontrivial = bool(errs) or any(ord(ch) > 127 for ch in src)
    after_dl = ""
    for i, t in enumerate(toks):
        if not isinstance(t, list) or len(t) != len(TF):
            v.append(("token-arity", "token-arity", f"token {i} has {len(t) if isinstance(t, list) else '?'} fields, Token declares {len(TF)}")); break
        d = dict(zip(TF, t))
        if any(k not in d for k in NEEDED_T):
            v.append(("token-fields", "token-fields", f"Token class lacks fields {[k for k in NEEDED_T if k not in d]}")); break
        ints = ["channel", "token_type", "token_index", "start", "stop", "line", "column", "end_line", "end_column"]
        if any(not isinstance(d[k], int) or isinstance(d[k], bool) for k in ints):
            v.append(("token-field-types", "token-field-types", f"token {i}: non-integer positional field: {d}")); break
        try:
            tname = TT(d["token_type"]).name
        except ValueError:
            v.append(("enum-member", "enum-member:token_type", f"token {i}: token_type {d['token_type']} is not a member of the shipped TokenType")); break
        try:
            TC(d["channel"])
        except ValueError:
            v.append(("enum-member", "enum-member:channel", f"token {i}: channel {d['channel']} is not a member of the shipped TokenChannel")); break
        if d["token_index"] != i:
            v.append(("token-index", "token-index", f"token {i} has token_index {d['token_index']}"))
        if d["start"] != pos or d["stop"] < d["start"] or d["stop"] > n:
            v.append(("tiling", f"tiling:{tname}", f"token {i} {tname} covers [{d['start']},{d['stop']}) but the previous token ended at {pos} (source has {n} code points)")); break
        pos = d["stop"]
        raw_t = src[d["start"]:d["stop"]]
        if tname == "DATALINES_DATA":
            after_dl = ":after-datalines"
        if (d["line"], d["column"]) != (line[d["start"]], col[d["start"]]):
            v.append(("start-linecol", f"start-linecol:{tname}{after_dl}", f"token {i} {tname} at {d['start']}: L{d['line']}:{d['column']} expected L{line[d['start']]}:{col[d['start']]}"))
        if d["stop"] == d["start"]:
            el, ec = line[d["start"]], col[d["start"]]
        else:
            el, ec = line[d["stop"] - 1], col[d["stop"] - 1] + 1
        if (d["end_line"], d["end_column"]) != (el, ec):
            v.append(("end-linecol", f"end-linecol:{tname}{after_dl}", f"token {i} {tname} [{d['start']},{d['stop']}): end L{d['end_line']}:{d['end_column']} expected L{el}:{ec}"))
        p = d["payload"]
        if p is None:
            pass
        elif isinstance(p, bool):
            v.append(("payload-type", "payload-type:bool", f"token {i} {tname}: payload {p!r}"))
        elif isinstance(p, int):
            if tname not in ("INTEGER_LITERAL", "MACRO_VAR_RESOLVE") and "MACRO_VAR" not in tname:
                v.append(("payload-type", f"payload-type:int-on:{tname}", f"token {i} {tname} carries an integer payload"))
            # the value must survive the trip: plain digits and hex spellings have one reading
            txt = src[d["start"]:d["stop"]]
            if tname == "INTEGER_LITERAL" and txt.isascii():
                want = int(txt) if txt.isdigit() else (int(txt[:-1], 16) if txt[-1:] in "xX" and txt[:1].isdigit() and all(c in "0123456789abcdefABCDEF" for c in txt[:-1]) else None)
                if want is not None and want != p:
                    v.append(("payload-value", "payload-value:int", f"token {i} {tname} {txt!r} carries {p!r}"))
            nontrivial = True
        elif isinstance(p, float):
            if tname not in ("FLOAT_LITERAL", "FLOAT_EXPONENT_LITERAL"):
                v.append(("payload-type", f"payload-type:float-on:{tname}", f"token {i} {tname} carries a float payload"))
            txt = src[d["start"]:d["stop"]]
            if txt.isascii() and re.fullmatch(r"[0-9]*\.?[0-9]*([eE][+-]?[0-9]+)?", txt) and any(c.isdigit() for c in txt.split("e")[0].split("E")[0]):
                try:
                    want = float(txt)
                except ValueError:
                    want = None
                if want is not None and (want != p or math.copysign(1.0, want) != math.copysign(1.0, p)):
                    v.append(("payload-value", "payload-value:float", f"token {i} {tname} {txt!r} carries {p!r}, the spelling reads as {want!r}"))
            nontrivial = True
        elif isinstance(p, list):
            nontrivial = True
            if len(p) != 2 or not all(isinstance(x, int) for x in p) or p[0] != litpos or p[1] < p[0] or p[1] > len(lit):
                v.append(("literal-range", "literal-range", f"token {i} {tname}: range {p} does not continue the partition at {litpos} (buffer {len(lit)} bytes)")); break
            litpos = p[1]
            try:
                ptxt = bytes(lit[p[0]:p[1]]).decode("utf-8")
            except UnicodeDecodeError:
                v.append(("literal-range", "literal-range:not-utf8", f"token {i} {tname}: range {p} does not slice the buffer at UTF-8 boundaries")); break
            kinds = [ekname(x) for x in err_on.get(i, [])]
            exp = None
            if tname in QUOTED and raw_t[:1] in "'\"":
                q = raw_t[0]
                unt = "UNTERMINATED_STRING_LITERAL" in kinds
                suf = SUFFIX_LEN.get(tname, 1)
                body = raw_t[1:] if unt else raw_t[1:len(raw_t) - 1 - suf]
                if tname == "HEX_STRING_LITERAL" and "INVALID_HEX_STRING_CONSTANT" not in kinds:
                    exp = hex_decode(body)
                    if exp is None:
                        sig = "unquoted-text:hex:sign-accepted-as-digit" if any(ch in "+-" for ch in body) else "unquoted-text:hex:decoded-though-not-hex-pairs"
                        v.append(("unquoted-text", sig, f"token {i} {raw_t!r}: body is not hex digit pairs, yet decoded to {ptxt!r}"))
                        continue
                else:
                    exp = body.replace(q + q, q)
            elif tname in ("STRING_EXPR_TEXT", "STRING_EXPR_END"):
                exp = raw_t.replace('""', '"')
            elif tname == "MACRO_STRING":
                exp = unq_pct(raw_t)[0]
            else:
                v.append(("payload-type", f"payload-type:str-on:{tname}", f"token {i} {tname} carries a string payload"))
            if exp is not None and ptxt != exp:
                shape = "wrong"
                if exp.endswith(ptxt) and len(ptxt) < len(exp):
                    missing = exp[:len(exp) - len(ptxt)]
                    # what the mode dispatchers of the lexer consume before calling the text scanner
                    shape = "payload-lacks-dispatcher-consumed-prefix" if set(missing) <= set("/&%\n") else "payload-is-proper-suffix"
                v.append(("unquoted-text", f"unquoted-text:{shape}:{tname}", f"token {i} {tname} {raw_t!r}: literal buffer slice {ptxt!r}, expected unquoted text {exp!r}"))
        else:
            v.append(("payload-type", "payload-type:other", f"token {i} {tname}: payload {p!r}"))
    else:
        if pos != n:
            v.append(("tiling", "tiling:end", f"tokens end at {pos}, source has {n} code points"))
        if toks and TT(toks[-1][TF.index("token_type")]).name != "EOF":
            v.append(("tiling", "tiling:no-eof", "last token is not EOF"))
        if litpos != len(lit):
            v.append(("literal-range", "literal-range:partition", f"payload ranges cover {litpos} of {len(lit)} buffer bytes"))
    for j, e in enumerate(errs):
        if not isinstance(e, list) or len(e) != len(EF):
            v.append(("error-arity", "error-arity", f"error {j} has {len(e) if isinstance(e, list) else '?'} fields, Error declares {len(EF)}")); break
        d = dict(zip(EF, e))
        if any(k not in d for k in NEEDED_E):
            v.append(("error-fields", "error-fields", f"Error class lacks fields {[k for k in NEEDED_E if k not in d]}")); break
        if ekname(d["error_kind"]) is None:
            v.append(("enum-member", "enum-member:error_kind", f"error {j}: error_kind {d['error_kind']} is not a member of the shipped ErrorKind")); continue
        co = d["at_char_offset"]
        if not isinstance(co, int) or co < 0 or co > n:
            v.append(("error-offset", "error-offset", f"error {j}: at_char_offset {co} outside the source")); continue
        if (d["on_line"], d["at_column"]) != (line[co], col[co]):
            v.append(("error-linecol", f"error-linecol:{ekname(d['error_kind'])}", f"error {j} {ekname(d['error_kind'])} at {co}: L{d['on_line']}:{d['at_column']} expected L{line[co]}:{col[co]}"))
        if len(src[:co].encode("utf-8")) != d["at_byte_offset"]:
            v.append(("error-offset", "error-offset:byte-vs-char", f"error {j}: at_byte_offset {d['at_byte_offset']} is not the byte length of the first {co} code points"))
        lt = d["last_token_index"]
        if lt is not None and not (isinstance(lt, int) and 0 <= lt < len(toks)):
            v.append(("error-last-token", "error-last-token", f"error {j}: last_token_index {lt} with {len(toks)} tokens"))
    if errs:
        labels.append("has-error")
    if litpos:
        labels.append("has-string-payload")
    if any(ord(ch) > 127 for ch in src):
        labels.append("non-ascii")
    v.extend(api_half(src, toks, errs, lit, labels))
    return v, nontrivial, labels


class _Disguised(str):
    def __str__(self):
        return "redacted;"
    __repr__ = __str__

    def __format__(self, spec):
        return "redacted;"


def api_half(src, toks, errs, lit, labels):
    """the package's public function must hand Python code exactly the payload, as objects of its Token / Error classes"""
    if API is None:
        labels.append("api-half:" + (API_NOTE or "unavailable").split(":")[0])
        if API_NOTE and API_NOTE.startswith("import-error"):
            return [("api", "api:" + API_NOTE.split(" line")[0], f"the Python package cannot be used: {API_NOTE}")]
        return []
    try:
        # a str subclass instance is a str: what is lexed must be its characters, whatever its __str__ says
        if len(src) % 4 == 1:
            labels.append("api-half:str-subclass-with-own-__str__")
            res = API.lex_program_from_str(_Disguised(src))
        else:
            res = API.lex_program_from_str(src)
    except MemoryError:
        raise
    except BaseException as e:
        return [("api", f"api:raises:{type(e).__name__}", f"_lex_program_from_str returned a payload but lex_program_from_str raised {type(e).__name__}: {str(e)[:160]}")]
    labels.append("api-half:compared")
    if not (isinstance(res, (tuple, list)) and len(res) == 3):
        return [("api", "api:result-shape", f"lex_program_from_str returned {type(res).__name__} of length {len(res) if hasattr(res, '__len__') else '?'}, not (tokens, errors, buffer)")]
    at, ae, ab = res
    out = []
    if not isinstance(ab, (bytes, bytearray)) or bytes(ab) != bytes(lit):
        out.append(("api", "api:buffer", f"third element is {type(ab).__name__} and differs from the payload's literal buffer"))

    def same(a, r):
        if isinstance(r, list):
            return isinstance(a, (tuple, list)) and len(a) == len(r) and all(same(x, y) for x, y in zip(a, r))
        if isinstance(r, float):
            return isinstance(a, float) and (a == r or (a != a and r != r))
        if r is None:
            return a is None
        if isinstance(r, int) and not isinstance(r, bool):
            # 42.0 == 42 in Python: an integer of the payload must arrive as an int (an IntEnum member is one)
            return isinstance(a, int) and not isinstance(a, bool) and a == r
        return a == r and not isinstance(a, bool)

    for what, objs, raws, fields, enums in (("token", at, toks, TF, {"channel": "TokenChannel", "token_type": "TokenType"}), ("error", ae, errs, EF, {"error_kind": "ErrorKind"})):
        try:
            n_obj = len(objs)
        except Exception:
            out.append(("api", f"api:{what}s-not-a-sequence", f"{what}s: {type(objs).__name__}")); continue
        if n_obj != len(raws):
            out.append(("api", f"api:{what}-count", f"{n_obj} {what} objects for {len(raws)} payload entries")); continue
        for i, (o, r) in enumerate(zip(objs, raws)):
            if type(o).__name__ != what.capitalize():
                out.append(("api", f"api:{what}-class", f"{what} {i} is a {type(o).__name__}")); break
            bad = None
            for k, name in enumerate(fields):
                if k >= len(r):
                    break
                try:
                    a = getattr(o, name)
                except Exception:
                    bad = f"{what} {i} has no attribute {name}"; break
                if name in enums and type(a).__name__ != enums[name]:
                    bad = f"{what} {i}.{name} is {type(a).__name__} {a!r}, not a {enums[name]} member"; break
                if not same(a, r[k]):
                    bad = f"{what} {i}.{name} = {a!r} but the payload has {r[k]!r} at position {k}"; break
            if bad:
                out.append(("api", f"api:{what}-field", bad)); break
    return out


# ---------------------------------------------------------------------------------- enum half
def upper_snake(name, digit_boundaries=True):
    """Pascal -> UPPER_SNAKE as convert_case does it: boundaries lower|Upper, acronym (ABc -> A|Bc),
    digit|letter; for TokenType the build script removes the letter|digit boundaries"""
    out = []
    for i, ch in enumerate(name):
        if i > 0:
            prev = name[i - 1]
            nxt = name[i + 1] if i + 1 < len(name) else ""
            split = False
            if ch.isupper() and prev.islower():
                split = True
            elif ch.isupper() and prev.isupper() and nxt.islower():
                split = True
            elif ch.isalpha() and prev.isdigit():
                split = True
            elif ch.isdigit() and prev.isalpha() and digit_boundaries:
                split = True
            if split:
                out.append("_")
        out.append(ch.upper())
    return "".join(out)


def linked_crate_enums():
    """(token types, channels, error kinds) as ordered (python name, value) lists, derived from the
    SOURCE of the lexer crate the binding links (cargo registry), independent of build.rs"""
    import glob, re
    try:
        ver = open(os.path.join(HERE, "build", "linked_lexer.txt")).read().strip().split(" v")[-1].split()[0]
    except Exception:
        return None
    home = os.path.expanduser(os.environ.get("CARGO_HOME", "~/.cargo"))
    cands = glob.glob(os.path.join(home, "registry", "src", "*", f"sas-lexer-{ver}", "src", "lexer"))
    if not cands:
        return None
    d = cands[0]

    def enum_body(path, name):
        src = open(os.path.join(d, path), encoding="utf-8").read()
        i = src.index(f"pub enum {name} {{")
        depth, j = 0, src.index("{", i)
        for k in range(j, len(src)):
            if src[k] == "{": depth += 1
            elif src[k] == "}":
                depth -= 1
                if depth == 0:
                    return src[j + 1:k]
        return ""

    def variants(body):
        out = []
        for line in body.split("\n"):
            line = line.split("//")[0].strip()
            m = re.match(r"^([A-Za-z][A-Za-z0-9_]*)\s*(=\s*(\d+))?\s*,?$", line)
            if m and not line.startswith("#"):
                out.append((m.group(1), int(m.group(3)) if m.group(3) else None))
        return out

    def rust_str(lit):
        """value of the body of a Rust string literal (escapes and line continuations resolved)"""
        out, i = [], 0
        while i < len(lit):
            c = lit[i]
            if c != "\\":
                out.append(c); i += 1; continue
            n = lit[i + 1]
            if n == "\n":
                i += 2
                while i < len(lit) and lit[i] in " \t\n\r":
                    i += 1
            elif n == "\r" and lit[i + 2:i + 3] == "\n":
                i += 3
                while i < len(lit) and lit[i] in " \t\n\r":
                    i += 1
            elif n == "x":
                out.append(chr(int(lit[i + 2:i + 4], 16))); i += 4
            elif n == "u":
                j = lit.index("}", i)
                out.append(chr(int(lit[i + 3:j].replace("_", ""), 16))); i = j + 1
            else:
                out.append({"n": "\n", "r": "\r", "t": "\t", "0": "\0", "\\": "\\", "'": "'", '"': '"'}[n]); i += 2
        return "".join(out)

    def messages(body):
        """{variant name: message} from #[strum(message = "...")] attributes"""
        out = {}
        for m in re.finditer(r'#\[strum\(\s*message\s*=\s*"((?:[^"\\]|\\.)*)"\s*,?\s*\)\]\s*([A-Za-z][A-Za-z0-9_]*)', body, re.S):
            out[m.group(2)] = rust_str(m.group(1))
        return out

    global CRATE_MESSAGES
    CRATE_MESSAGES = {upper_snake(n): t for n, t in messages(enum_body("error.rs", "ErrorKind")).items()}
    tt = [(upper_snake(n, digit_boundaries=False), i) for i, (n, _) in enumerate(variants(enum_body("token_type.rs", "TokenType")))]
    ch_v = variants(enum_body("channel.rs", "TokenChannel"))
    ch = [(n, v if v is not None else i) for i, (n, v) in enumerate(ch_v)]
    ek = sorted(((upper_snake(n), v) for n, v in variants(enum_body("error.rs", "ErrorKind")) if v is not None), key=lambda x: x[1])
    return tt, ch, ek


CRATE_MESSAGES = {}


def enum_half():
    """finite, exhaustive: committed enum modules == what the build script generates from the linked crate"""
    v = []
    compared = 0
    gen = os.path.join(HERE, "build", "generated")
    for fn in ("token_type.py", "token_channel.py", "error_kind.py", "token.py", "error.py"):
        a = open(os.path.join(PKG, fn), "rb").read()
        try:
            b = open(os.path.join(gen, fn), "rb").read()
        except FileNotFoundError:
            v.append(("enum-files", f"enum-files:missing:{fn}", f"build script output for {fn} not found")); continue
        compared += 1
        if a != b:
            la, lb = a.decode("utf-8", "replace").splitlines(), b.decode("utf-8", "replace").splitlines()
            k = next((i for i, (x, y) in enumerate(zip(la, lb)) if x != y), min(len(la), len(lb)))
            v.append(("enum-files", f"enum-files:differ:{fn}", f"{fn}: committed file differs from what the build script generates from the linked lexer crate; first difference at line {k + 1}: committed {la[k] if k < len(la) else '<eof>'!r} vs generated {lb[k] if k < len(lb) else '<eof>'!r}"))
    # every (name, value) of the shipped enums must be unique and consistently named
    members = 0
    for E in (TT, TC, EK):
        seen = {}
        for m in E:
            members += 1
            if m.value in seen:
                v.append(("enum-files", f"enum-files:duplicate-value:{E.__name__}", f"{E.__name__}.{m.name} and {seen[m.value]} share value {m.value}"))
            seen[m.value] = m.name
            if m.name != m.name.upper() or not m.name.replace("_", "").isalnum():
                v.append(("enum-files", f"enum-files:name-shape:{E.__name__}", f"{E.__name__}.{m.name} is not UPPER_SNAKE"))
    # independent of build.rs: the shipped enums must be what the linked crate's source declares
    lc = linked_crate_enums()
    if lc is None:
        stats["labels"]["enum-source-comparison-skipped(registry source not found)"] = 1
    else:
        for E, exp in zip((TT, TC, EK), lc):
            got = [(m.name, int(m.value)) for m in E]
            if got != exp:
                k = next((i for i, (a, b) in enumerate(zip(got, exp)) if a != b), min(len(got), len(exp)))
                v.append(("enum-files", f"enum-files:differs-from-linked-crate:{E.__name__}", f"{E.__name__}: shipped enum differs from the linked crate's declaration at member {k}: shipped {got[k] if k < len(got) else '<missing>'} vs crate {exp[k] if k < len(exp) else '<missing>'} ({len(got)} vs {len(exp)} members)"))
        # ... including the message texts the error-kind module ships for each member
        shipped = getattr(EK_MOD, "ERROR_MESSAGE", None)
        if isinstance(shipped, dict) and CRATE_MESSAGES:
            n_msg = 0
            for m in EK:
                if m.name in CRATE_MESSAGES and m in shipped:
                    n_msg += 1
                    if shipped[m] != CRATE_MESSAGES[m.name]:
                        v.append(("enum-files", f"enum-files:message-differs-from-linked-crate:{m.name}", f"ERROR_MESSAGE[{m.name}] is {shipped[m]!r}, the linked crate declares {CRATE_MESSAGES[m.name]!r}"))
            stats["labels"]["enum-message-comparison"] = n_msg
        stats["labels"]["enum-source-comparison"] = sum(len(x) for x in lc)
    return v, compared, members


# ---------------------------------------------------------------------------------- generators
FRAGS = [" ", "\n", ";", "a", "b1", "1", "2.5", "'s'", "'it''s'", "\"d\"", "\"a\"\"b\"", "\"", "'", "/*c*/", "/*", "*", "* c;", "%*c;", "&mv", "&mv.", "&&a&b", "%m", "%m(", "(", ")", ",", "=",
         "%let", "%let a=1;", "%put", "%if", "%then", "%else", "%do", "%to", "%end", "%macro", "%mend", "%eval(", "%str(", "%nrstr(", "%scan(", "%sysfunc(", "%local", "%goto", "%lbl:",
         "datalines;", "cards4;", ";;;;", "$f.", "eq", "%'", "%\"", "%%", "%(", "%)", "x", "'41'x", "\"4a\"X", "'4'x", "é", "😀", " ", ".", "data", "run", "\r\n", "\t", "1e3", "0fx", "1e",
         "'a'd", "\"&a\"dt", "'n'n", "/", "&&", "18446744073709551616", "9223372036854775808", "18446744073709551615", "9223372036854775807", "0FFFFFFFFFFFFFFFFx", "08000000000000000x", "1e308", "1e-320", "0.1", "123456789012345678", "﻿", "中", "%sysevalf(", "%upcase(", "%bquote(", "%qscan(", "%include", "%return", "%abort", ":", "+", "-", "<=", "||"]

text_strategy = st.one_of(
    st.lists(st.sampled_from(FRAGS), min_size=1, max_size=14).map("".join),
    st.text(alphabet=st.one_of(st.sampled_from(list("abAB01_ ;%&'\"()=,*/.\n\t")), st.characters(blacklist_categories=("Cs",))), max_size=40),
    st.lists(st.one_of(st.sampled_from(FRAGS), st.text(max_size=3)), min_size=1, max_size=10).map("".join),
    # Python strings can hold unpaired surrogates (files read with errors="surrogateescape"): the binding may refuse
    # them, but a result it returns must still be positioned in the caller's str
    st.lists(st.one_of(st.sampled_from(FRAGS), st.characters(min_codepoint=0xD800, max_codepoint=0xDFFF, categories=("Cs",))), min_size=1, max_size=8).map("".join),
)


def harness_json(cmd):
    exe = os.path.join(ROOT, "harness", "target", "release", "verif")
    if not os.path.exists(exe):
        return []
    try:
        out = subprocess.run([exe] + cmd, capture_output=True, text=True, timeout=120, env={**os.environ, "VERIF_ROOT": ROOT})
        return json.loads(out.stdout)
    except Exception:
        return []


# ---------------------------------------------------------------------------------- driver
stats = {"evaluations": 0, "nontrivial": set(), "labels": {}, "panics_outside_property": 0, "samples": {}}
failures = {}


def account(src, must_return, origin):
    v, nt, labels = check(src, must_return)
    stats["evaluations"] += 1
    for l in labels + [f"origin:{origin}"]:
        stats["labels"][l] = stats["labels"].get(l, 0) + 1
    if "panic-outside-property" in labels:
        stats["panics_outside_property"] += 1
    if nt:
        h = hashlib.sha1(src.encode("utf-8", "surrogatepass")).hexdigest()
        stats["nontrivial"].add(h)
        if len(stats["samples"]) < 8 or h < max(stats["samples"]):
            stats["samples"][h] = src[:200]
            if len(stats["samples"]) > 8:
                del stats["samples"][max(stats["samples"])]
    bad = []
    for rule, sig, msg in v:
        f = known(sig)
        if f is not None:
            e = kf_hits.setdefault(f["id"], [0, src[:160]])
            e[0] += 1
        else:
            bad.append((rule, sig, msg))
    return bad


def history_check(p, q):
    """lex p, then q (temporary objects of equal length), an unrelated call, then q again; returns violations on q"""
    try:
        lex("".join([p[:1], p[1:]]))
        r1 = lex("".join([q[:1], q[1:]]))
        lex(q + " ")
        r2 = lex("".join([q[:1], q[1:]]))
    except MemoryError:
        raise
    except BaseException:
        return None
    bad = [x for x in check(q, False, given_raw=r1)[0] if known(x[1]) is None]
    if r1 != r2:
        bad.append(("history", "history:payload-depends-on-earlier-calls", "the same source text got two different payloads in one process (first right after a same-length neighbour, then after an unrelated call)"))
    return bad


def write_replay(src, rule, sig, msg, origin):
    if origin == "call-history" and "\x00" in src:
        d = os.path.join(ROOT, "replays", "found")
        os.makedirs(d, exist_ok=True)
        h = hashlib.sha1((sig + "|" + src).encode("utf-8", "surrogatepass")).hexdigest()[:16]
        p = os.path.join(d, f"C20-{h}.json")
        json.dump({"property": "C20", "rule": rule, "signature": sig, "message": msg, "found_by": origin, "seed": seed,
                   "case": {"kind": "history", "texts": src.split("\x00"), "bytes_hex": "", "n": 0, "gen": origin}}, open(p, "w", encoding="utf-8"), ensure_ascii=True, indent=1)
        return p
    d = os.path.join(ROOT, "replays", "found")
    os.makedirs(d, exist_ok=True)
    h = hashlib.sha1((sig + "|" + src).encode("utf-8", "surrogatepass")).hexdigest()[:16]
    p = os.path.join(d, f"C20-{h}.json")
    json.dump({"property": "C20", "rule": rule, "signature": sig, "message": msg, "found_by": origin, "seed": seed,
               "case": {"kind": "text", "texts": [src], "bytes_hex": "", "n": 1 if origin != "text" else 0, "gen": origin}}, open(p, "w", encoding="utf-8"), ensure_ascii=True, indent=1)
    return p


def shrink(src, must_return, rule):
    """rule-preserving delta debugging on characters"""
    best = src
    budget = 600
    chunk = max(len(best) // 2, 1)
    while budget > 0:
        progressed = False
        i = 0
        while i < len(best) and budget > 0:
            cand = best[:i] + best[i + chunk:]
            budget -= 1
            try:
                bad = [x for x in check(cand, must_return)[0] if x[0] == rule and known(x[1]) is None]
            except Exception:
                bad = []
            if bad:
                best = cand; progressed = True; break
            i += chunk
        if not progressed:
            if chunk == 1:
                break
            chunk = max(chunk // 2, 1)
    return best


def main():
    t0 = time.time()
    if replay:
        r = json.load(open(replay, encoding="utf-8"))
        src = r["case"]["texts"][0]
        must = bool(r["case"].get("n", 0))
        if r["case"].get("kind") == "history" and len(r["case"]["texts"]) == 2:
            bad = history_check(r["case"]["texts"][0], r["case"]["texts"][1]) or []
        else:
            bad = account(src, must, "replay")
        for f in KF:
            if f["id"] in kf_hits:
                print(f"KNOWN-FINDING: property=C20 {f['id']} {f['what']}")
        for rule, sig, msg in bad:
            print(f"  rule {rule} sig {sig}: {msg}")
        if bad:
            print(f"VIOLATION property=C20 replay={replay}")
            return 1
        print(f"replay {replay}: property C20 holds on this case")
        return 0

    violations = []  # (src, must_return, rule, sig, msg, origin)

    # 0. committed replays
    rdir = os.path.join(ROOT, "replays", "C20")
    replayed = 0
    if os.path.isdir(rdir):
        for fn in sorted(os.listdir(rdir)):
            if fn.endswith(".json"):
                r = json.load(open(os.path.join(rdir, fn), encoding="utf-8"))
                src = r["case"]["texts"][0]; must = bool(r["case"].get("n", 0))
                replayed += 1
                for rule, sig, msg in account(src, must, "replay"):
                    violations.append((src, must, rule, sig, msg, f"replay of {fn}"))

    # 1. enum half (finite, exhaustive)
    ev, files_compared, members = enum_half()
    for rule, sig, msg in ev:
        if known(sig) is None:
            violations.append(("", False, rule, sig, msg, "enum-comparison"))

    # 2. well-formed programs from the construct grammar and real-world sources: must return
    n_gram = 3000 if tier == "quick" else 60000
    programs = harness_json(["gen-gram", str(n_gram), "--seed", str(seed)])
    for p in programs:
        for rule, sig, msg in account(p, True, "grammar-program"):
            violations.append((p, True, rule, sig, msg, "grammar-program"))
    cdir = os.path.join(ROOT, "corpus")
    real = []
    for sub in ("sas", "bench"):
        d = os.path.join(cdir, sub)
        if os.path.isdir(d):
            for fn in sorted(os.listdir(d)):
                real.append(open(os.path.join(d, fn), encoding="utf-8").read())
    for p in real:
        for rule, sig, msg in account(p, True, "real-world-file"):
            violations.append((p, True, rule, sig, msg, "real-world-file"))
    # generated soups from the Rust side as well (same generators as C01-C10)
    soups = harness_json(["gen-text", str(3000 if tier == "quick" else 60000), "--seed", str(seed)])
    for p in soups:
        for rule, sig, msg in account(p, False, "harness-soup"):
            violations.append((p, False, rule, sig, msg, "harness-soup"))

    # 2a. every low code point (and a selection of higher ones) at the borders of the source: whatever the binding or its
    # wrapper does to the string before lexing (trimming, end-of-file markers, newline or Unicode normalization) shows
    # as positions that no longer refer to the caller's string
    cps = list(range(0, 0x530)) + list(range(0x2000, 0x2070)) + [0x85, 0xa0, 0x1680, 0x180e, 0x3000, 0xfb01, 0x212b, 0xfeff, 0xfffd, 0xfffe, 0xffff, 0x10000, 0x1f600, 0xe0001, 0x10ffff]
    if tier != "quick":
        cps += list(range(0x530, 0x3100)) + list(range(0xf900, 0x10000)) + list(range(0x1f000, 0x1f700))
    borders = 0
    for cp in sorted(set(cps)):
        if 0xd800 <= cp <= 0xdfff:
            continue
        c = chr(cp)
        for p in (c, "run;" + c, c + "run;", "x='a" + c + "';" + c + c, "e" + c + "\n" + c):
            borders += 1
            for rule, sig, msg in account(p, False, "border-code-point"):
                violations.append((p, False, rule, sig, msg, "border-code-point"))
    stats["labels"]["origin:border-code-point"] = borders

    # 2a'. sizes at which the wire format changes its encoding (msgpack array / bin / int widths) or a buffer is likely
    # to be handled differently: token counts, error counts and literal-buffer lengths around 2^4, 2^8 and 2^16, and one
    # payload above 1 MiB followed by small programs (which must get their own results)
    sized = []
    big = (65534, 65535, 65536) if tier == "quick" else (65533, 65534, 65535, 65536, 65537, 131071, 131072)
    for n in (14, 15, 16, 17, 254, 255, 256, 257) + big:
        sized.append(";" * n)
    for n in (15, 16, 17, 255, 256, 257) + ((65535, 65536) if tier == "quick" else big):
        sized.append("'g'x;" * n)
    for n in (31, 32, 33, 255, 256, 257, 65535, 65536, 65537, 70001):
        sized.append("x = '" + "a" * (n - 2) + "''b';\n")
    sized.append("  x = 'a''b';\n" * 22000)
    sized.append("data a; x = 'it''s'; y = 1.5e3; run;\n" * 9000)
    sized += ["x = 'it''s';", "", ";", "data a; run;"]
    # numeric payloads at the edges of the integer and float encodings
    sized += [f"x = {n};" for n in ("127", "128", "255", "256", "65535", "65536", "4294967295", "4294967296", "9223372036854775807", "9223372036854775808", "18446744073709551615", "18446744073709551616",
                                    "0FFFFFFFFFFFFFFFFx", "07FFFFFFFFFFFFFFFx", "08000000000000000x", "1e308", "1.7976931348623157e308", "1e309", "4.9e-324", "1e-400", "0.0", "16777217.0", "3.4028235e38", "0.1", "1.", ".5e1")]
    sized += [f"%let a=%eval({n}+1); %let b=%sysevalf({n}*1.5);" for n in ("9223372036854775807", "9223372036854775808", "18446744073709551615", "0FFx", "4294967296")]
    for p in sized:
        for rule, sig, msg in account(p, False, "size-boundary"):
            violations.append((p, False, rule, sig, msg, "size-boundary"))

    # 2b. call histories: the payload returned for a string must describe *that* string, whatever was lexed before it.
    # A source and a same-length neighbour (one character inside a quoted literal changed) are passed as temporary
    # objects, so that the second one usually reuses the memory of the first; the contract is checked on what the
    # extension returned for the second, and the same text must get the same payload again after an unrelated call.
    hist = 0
    for p in (programs + soups)[: (1500 if tier == "quick" else 20000)]:
        k = next((i for i in range(1, len(p) - 1) if p[i].isascii() and p[i].isalnum() and p[i - 1] in "'\"" and p[i + 1:i + 2].isascii()), None)
        if k is None:
            continue
        q = p[:k] + ("Z" if p[k] != "Z" else "Y") + p[k + 1:]
        bad = history_check(p, q)
        if bad is None:
            continue
        hist += 1
        stats["evaluations"] += 1
        for rule, sig, msg in bad:
            violations.append((p + "\x00" + q, False, rule, sig, msg, "call-history"))
    stats["labels"]["origin:call-history"] = hist

    # 3. Hypothesis over arbitrary text: the contract must hold whenever a result is returned
    n_hyp = 3000 if tier == "quick" else 60000
    hyp_fail = []

    @hseed(seed)
    @settings(max_examples=n_hyp, database=None, deadline=None, derandomize=False, suppress_health_check=list(HealthCheck), phases=[Phase.generate, Phase.shrink])
    @given(text_strategy)
    def prop(src):
        bad = account(src, False, "hypothesis-text")
        if bad:
            hyp_fail.append((src, bad))
            raise AssertionError(bad[0][1])

    try:
        prop()
    except AssertionError:
        if hyp_fail:
            src, bad = min(hyp_fail, key=lambda x: len(x[0]))
            rule, sig, msg = bad[0]
            violations.append((src, False, rule, sig, msg, "hypothesis-text"))
    except MemoryError:
        print("INCONCLUSIVE: memory limit hit inside the extension", file=sys.stderr)
        return 2

    # ---- report
    out = []
    seen = set()
    violations.sort(key=lambda x: len(x[0]))
    for src, must, rule, sig, msg, origin in violations:
        if sig in seen:
            continue
        seen.add(sig)
        if src and not must and origin != "call-history":
            # (well-formed programs are not shrunk: a shrunk text would leave the grammar)
            small = shrink(src, must, rule)
            again = [x for x in check(small, must)[0] if x[0] == rule and known(x[1]) is None]
            if again:
                src, (rule, sig, msg) = small, again[0]
        out.append((write_replay(src, rule, sig, msg, origin), rule, msg, src))
        if len(out) >= 5:
            break
    linked = ""
    try:
        linked = open(os.path.join(HERE, "build", "linked_lexer.txt")).read().strip()
    except Exception:
        pass
    evidence = {
        "property_id": "C20", "tier": tier, "seed": seed, "level": "exploration",
        "coverage": {
            "evaluations": stats["evaluations"],
            "distinct_nontrivial": len(stats["nontrivial"]),
            "rule": "cases: construct-grammar programs and generated soups exported by the Rust harness (same generators as C01-C15), the real-world .sas files, Hypothesis text (fragment lists, weighted characters, arbitrary Unicode), token / error / literal-buffer counts around 2^4, 2^8, 2^16 and a payload above 1 MiB followed by small programs, every code point below U+0530 and a selection of higher ones at the start / end / inside a literal of a small program, all through the real extension module and, as a differential, through a plain Rust program that links the same lexer crate as the binding (py/refdump: the two results must be equal) (numeric payloads must also carry the value their spelling has); plus the finite comparison of the committed enum/class modules with the build script's output; distinct = distinct source; non-trivial = the result has an error, a numeric/string payload, or the source has a non-ASCII character",
            "samples": list(stats["samples"].values()),
            "exhaustive": False,
            "enum_files_compared": files_compared,
            "enum_members_checked": members,
            "grammar_programs": len(programs),
            "real_world_files": len(real),
            "harness_soups": len(soups),
            "hypothesis_examples_requested": n_hyp,
            "replayed_regressions": replayed,
            "panics_outside_property": stats["panics_outside_property"],
            "labels": stats["labels"],
            "known_finding_hits": [{"id": k, "hits": v[0], "example": v[1]} for k, v in kf_hits.items()],
            "linked_lexer_crate": linked,
            "token_fields": TF, "error_fields": EF,
        },
        "assumptions": ["msgpack_min.py decodes the msgpack subset rmp-serde emits", "the extension is built in the dev profile: a defect of the linked registry crate shows as PanicException (outside the property on arbitrary text) instead of a hang",
                        "the linked lexer is the published crate named in linked_lexer_crate, not the workspace crate"],
        "wall_s": round(time.time() - t0, 2),
        "violations": len(out),
    }
    os.makedirs(os.path.join(ROOT, "evidence"), exist_ok=True)
    json.dump(evidence, open(os.path.join(ROOT, "evidence", "C20.json"), "w", encoding="utf-8"), ensure_ascii=False, indent=1)
    print(f"C20 tier={tier} seed={seed}: {stats['evaluations']} evaluations ({replayed} replayed, {len(stats['nontrivial'])} distinct non-trivial), {stats['panics_outside_property']} panics outside the property, {time.time() - t0:.1f}s")
    for f in KF:
        print(f"KNOWN-FINDING: property=C20 {f['id']} {f['what']} (signature {f['signature']}; {kf_hits.get(f['id'], [0])[0]} hit(s) in this run)")
    for p, rule, msg, src in out:
        print(f"  rule {rule}: {msg}")
        print(f"  case: {json.dumps(src[:300], ensure_ascii=False)}")
        print(f"VIOLATION property=C20 replay={p}")
    if out:
        return 1
    if len(stats["nontrivial"]) < 2:
        print("INCONCLUSIVE: fewer than 2 distinct non-trivial cases", file=sys.stderr)
        return 2
    return 0


if __name__ == "__main__":
    sys.exit(main())
