#!/usr/bin/env python3
"""Regenerate the seeded-change table of DESIGN.md (section 9.5) from seeded/*/meta.json."""
import json, glob, os, re
rows = []
for p in sorted(glob.glob("/verif/seeded/*/meta.json")):
    m = json.load(open(p))
    rows.append((m["name"], m.get("breaks_property", "?"), m.get("needs_to_manifest", ""), ", ".join(m.get("detected_by", [])) or "-", ", ".join(m.get("not_detected_by", [])) or "-", ", ".join(m.get("detected_after_strengthening", [])) or "-"))
out = ["| seeded change (`seeded/<name>/`) | aimed at | needs in order to manifest | caught by (as first built) | also run, silent | caught after strengthening |", "|---|---|---|---|---|---|"]
for r in rows:
    out.append("| " + " | ".join(x.replace("|", "\\|").replace("\n", " ") for x in r) + " |")
table = "\n".join(out)
d = open("/verif/DESIGN.md").read()
a, b = "<!-- SEED-TABLE-BEGIN -->", "<!-- SEED-TABLE-END -->"
if a in d:
    d = d[:d.index(a) + len(a)] + "\n" + table + "\n" + d[d.index(b):]
    open("/verif/DESIGN.md", "w").write(d)
print(table)
