#!/bin/bash
# Apply a property-preserving change to /repo, run every quick check, undo it. Every check must stay silent.
#   tools/try_benign.sh <file.diff> [Cxx ...]
set -u
PATCH="$(realpath "$1")"; shift
PROPS="${*:-C01 C02 C03 C04 C05 C06 C07 C08 C09 C10 C11 C12 C13 C14 C15 C16 C17 C18 C19}"
[ -z "$(git -C /repo status --porcelain)" ] || { echo "/repo is not clean"; exit 2; }
git -C /repo apply "$PATCH" || { echo "patch does not apply"; exit 2; }
trap 'git -C /repo checkout -- . ; git -C /repo clean -fdq -- crates src 2>/dev/null; git -C /repo status --porcelain | head -3' EXIT
for P in $PROPS; do
  OUT=$(cd /verif && ./check "$P" --seed "${SEED:-1}" 2>&1); RC=$?
  echo "--- $(basename "$PATCH") vs $P: exit $RC $(echo "$OUT" | grep -E "VIOLATION|INCONCLUSIVE|^  rule" | cut -c1-260 | head -3)"
done
