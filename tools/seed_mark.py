#!/usr/bin/env python3
"""tools/seed_mark.py <seeded-name> <needs-to-manifest text> caught:C04,C15 missed:C05"""
import json, sys, os
name, needs = sys.argv[1], sys.argv[2]
p = f"/verif/seeded/{name}/meta.json"
m = json.load(open(p))
m["needs_to_manifest"] = needs
for a in sys.argv[3:]:
    k, v = a.split(":", 1)
    m.setdefault({"caught": "detected_by", "missed": "not_detected_by", "later": "detected_after_strengthening"}[k], [])
    key = {"caught": "detected_by", "missed": "not_detected_by", "later": "detected_after_strengthening"}[k]
    m[key] = sorted(set(m.get(key, []) + [x for x in v.split(",") if x]))
json.dump(m, open(p, "w"), indent=1)
print(m)
