#!/bin/bash
# Apply a seeded change to /repo, run the quick checks given (default: the property it targets), undo it.
#   tools/try_seed.sh <seeded-dir-name> [Cxx ...]      (env TIER=quick|thorough)
set -u
NAME="$1"; shift
DIR="/verif/seeded/$NAME"; PATCH="$DIR/patch.diff"
PROPS="${*:-$(python3 -c "import json;print(json.load(open('$DIR/meta.json'))['breaks_property'])")}"
[ -z "$(git -C /repo status --porcelain)" ] || { echo "/repo is not clean"; exit 2; }
git -C /repo apply "$PATCH" || { echo "patch does not apply"; exit 2; }
trap 'git -C /repo checkout -- . ; git -C /repo status --porcelain | head -3' EXIT
for P in $PROPS; do
 for SD in ${SEEDS:-1}; do
  OUT=$(cd /verif && ./check "$P" --tier "${TIER:-quick}" --seed "$SD" 2>&1); RC=$?
  echo "--- $NAME vs $P (seed $SD): exit $RC"
  echo "$OUT" | grep -E "VIOLATION|INCONCLUSIVE|^  rule" | cut -c1-300 | head -${LINES_SHOWN:-4}
 done
done
