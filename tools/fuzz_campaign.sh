#!/bin/bash
# Engine E2: coverage-guided campaign for one property (thorough tier).
#   tools/fuzz_campaign.sh <Cxx> <seed>
# Runs the libFuzzer target(s) that carry the property's oracle for VERIF_THOROUGH_S seconds
# (default 300) on VERIF_FUZZ_JOBS jobs (default 16). exit 0: no unlisted violation;
# exit 1: VIOLATION line(s) printed (each re-validated by the stable harness); exit 2: could not run.
set -u
ROOT="$(cd "$(dirname "${BASH_SOURCE[0]}")/.." && pwd)"
ID="$1"; SEED="${2:-1}"
SECS="${VERIF_THOROUGH_S:-300}"; JOBS="${VERIF_FUZZ_JOBS:-16}"
FUZZ="$ROOT/harness/fuzz"
export CARGO_NET_OFFLINE=true VERIF_ROOT="$ROOT" VERIF_FUZZ_PROPS="$ID" RUST_BACKTRACE=0
export RUSTFLAGS="--cfg sas_lexer_verif"
case "$ID" in
  C12|C13|C14|C15|C16) TARGETS="fz_choice";;
  C20) exit 0;;
  *) TARGETS="fz_text fz_choice";;
esac
SAN="none"; [ "$ID" = "C01" ] && SAN="address"
mkdir -p "$ROOT/logs" "$ROOT/replays/found"
# the stable harness re-validates every fuzz finding: make sure it is built from the current tree
( unset RUSTFLAGS; python3 "$ROOT/tools/gen_shadow.py" >/dev/null && cd "$ROOT/harness" && cargo build --release --offline ) >"$ROOT/logs/fuzz-stable-build-$ID.log" 2>&1 || { echo "INCONCLUSIVE: harness build failed" >&2; exit 2; }
cp "$ROOT/harness/Cargo.lock" "$FUZZ/Cargo.lock" 2>/dev/null || true
( cd "$FUZZ" && cargo +nightly fuzz build -O -s "$SAN" --target-dir "$FUZZ/target-$SAN" ) >"$ROOT/logs/fuzz-build-$ID.log" 2>&1 || { echo "INCONCLUSIVE: fuzz build failed (see logs/fuzz-build-$ID.log)" >&2; tail -n 20 "$ROOT/logs/fuzz-build-$ID.log" >&2; exit 2; }
STAMP="$ROOT/logs/fuzz-stamp-$ID"; touch "$STAMP"
NT=$(echo $TARGETS | wc -w); PER=$(( SECS / NT )); [ "$PER" -lt 5 ] && PER=5
TOTAL=0; SUMMARY=""
for T in $TARGETS; do
  CORP="$FUZZ/corpus/$T"; mkdir -p "$CORP"
  if [ "$T" = "fz_text" ] && [ -z "$(ls -A "$CORP" 2>/dev/null | head -1)" ]; then
    python3 - "$ROOT" "$CORP" <<'PY'
import json, sys, os, hashlib
root, corp = sys.argv[1], sys.argv[2]
for s in json.load(open(os.path.join(root, "corpus", "tests.json"))):
    open(os.path.join(corp, hashlib.sha1(s.encode()).hexdigest()[:16]), "w").write(s)
for sub in ("sas",):
    d = os.path.join(root, "corpus", sub)
    for fn in os.listdir(d):
        open(os.path.join(corp, "file-" + fn), "w").write(open(os.path.join(d, fn)).read()[:4000])
PY
  fi
  LOG="$ROOT/logs/fuzz-$ID-$T.log"
  ( cd "$FUZZ" && timeout -k 10 $(( PER + 120 )) cargo +nightly fuzz run -O -s "$SAN" --target-dir "$FUZZ/target-$SAN" "$T" -- -seed="$SEED" -max_total_time="$PER" -len_control=0 -max_len=4096 -fork="$JOBS" -ignore_crashes=0 -ignore_ooms=0 -ignore_timeouts=0 -timeout=30 -rss_limit_mb=4096 ) >"$LOG" 2>&1
  N=$(grep -oE "^#[0-9]+:" "$LOG" | tail -1 | tr -dc 0-9); N=${N:-0}
  TOTAL=$(( TOTAL + N )); SUMMARY="$SUMMARY $T:$N"
done
# unlisted violations leave a replay file written by the target itself
RC=0
for f in $(find "$ROOT/replays/found" -name "$ID-fuzz-*.json" -newer "$STAMP" 2>/dev/null | sort | head -5); do
  if "$ROOT/harness/target/release/verif" replay "$f" --property "$ID" >"$ROOT/logs/fuzz-replay-$ID.log" 2>&1; then
    echo "note: fuzz finding $f does not reproduce on the stable harness (toolchain-dependent?) - see logs/fuzz-replay-$ID.log" >&2
    [ "$ID" = "C19" ] && { echo "VIOLATION property=$ID replay=$f"; RC=1; }
  else
    grep -E "^  rule" "$ROOT/logs/fuzz-replay-$ID.log" | head -3
    echo "VIOLATION property=$ID replay=$f"; RC=1
  fi
done
CRASHES=$(grep -lE "ERROR: libFuzzer|AddressSanitizer|SUMMARY:" "$ROOT"/logs/fuzz-$ID-*.log 2>/dev/null | wc -l)
if [ $RC -eq 0 ] && [ "$CRASHES" -gt 0 ] && ! grep -q "FUZZ-VIOLATION" "$ROOT"/logs/fuzz-$ID-*.log; then
  # a crash that is not one of our reports: sanitizer finding, timeout or OOM inside the target
  TO=$(ls -t "$FUZZ"/artifacts/*/timeout-* "$FUZZ"/artifacts/*/oom-* 2>/dev/null | head -1)
  if [ "$ID" = "C01" ] && [ -n "$TO" ] && [ "$TO" -nt "$STAMP" ]; then
    # a timeout / out-of-memory artifact: confirm with the stable harness (60 s per lexer call / 4 GiB guard)
    R="$ROOT/replays/found/C01-fuzz-hang-$(basename "$TO").json"
    python3 - "$TO" "$R" <<'PY'
import json, sys
data = open(sys.argv[1], "rb").read().decode("utf-8", "replace")
json.dump({"property": "C01", "rule": "hang", "signature": "hang", "message": "libFuzzer timeout/oom artifact", "found_by": "libFuzzer", "seed": 0, "case": {"kind": "text", "texts": [data], "bytes_hex": "", "n": 0, "gen": "libfuzzer"}}, open(sys.argv[2], "w"))
PY
    "$ROOT/harness/target/release/verif" replay "$R" --property C01 >/dev/null 2>&1; RR=$?
    if [ $RR -eq 3 ] || [ $RR -eq 1 ]; then echo "  rule hang: libFuzzer timeout/oom artifact reproduced by the stable harness"; echo "VIOLATION property=C01 replay=$R"; RC=1; else echo "INCONCLUSIVE: libFuzzer timeout/oom artifact $TO does not reproduce" >&2; RC=2; fi
  elif [ "$ID" = "C01" ] && grep -qE "ERROR: AddressSanitizer: [a-z-]+|ERROR: libFuzzer: deadly signal" "$ROOT"/logs/fuzz-$ID-*.log && [ -n "$(find "$FUZZ"/artifacts -name 'crash-*' -newer "$STAMP" 2>/dev/null | head -1)" ]; then
    # a memory error or signal inside the lexer itself (not one of our reports): undefined behaviour is a totality failure
    ART=$(find "$FUZZ"/artifacts -name 'crash-*' -newer "$STAMP" | head -1)
    grep -E "ERROR: AddressSanitizer|SUMMARY:" "$ROOT"/logs/fuzz-$ID-*.log | head -2
    echo "  rule memory-error: sanitizer / signal crash inside the lexer"; echo "VIOLATION property=C01 replay=$ART"; RC=1
  else
    echo "INCONCLUSIVE: fuzz target stopped for a reason other than a property violation (timeout/OOM/other), see logs/fuzz-$ID-*.log" >&2
    RC=2
  fi
fi
python3 - "$ROOT/evidence/$ID.json" "$TOTAL" "$SECS" "$JOBS" "$SUMMARY" "$SAN" "$RC" <<'PY'
import json, sys
p, total, secs, jobs, summary, san, rc = sys.argv[1:8]
try:
    e = json.load(open(p))
except Exception:
    sys.exit(0)
e["coverage"]["fuzz_campaign"] = {"engine": "libFuzzer (cargo-fuzz), oracle inside the target", "executions": int(total), "per_target": summary.strip(), "seconds": int(secs), "jobs": int(jobs), "sanitizer": san, "result": {"0": "no unlisted violation", "1": "violation", "2": "inconclusive"}.get(rc, rc)}
e["coverage"]["evaluations"] = int(e["coverage"].get("evaluations", 0)) + int(total)
if rc == "1":
    e["violations"] = int(e.get("violations", 0)) + 1
json.dump(e, open(p, "w"), indent=1)
PY
echo "fuzz campaign $ID: $TOTAL executions in ${SECS}s on $JOBS jobs ($SUMMARY )"
exit $RC
