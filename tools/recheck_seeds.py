#!/usr/bin/env python3
"""Regression re-check: every recorded seeded change must still be caught by (one of) the checks recorded as catching it.
   tools/recheck_seeds.py [--sample N] [--rng S]   (applies each patch to /repo in turn via tools/try_seed.sh; /repo must be clean)"""
import json, glob, os, random, subprocess, sys
args = sys.argv[1:]
def opt(n, d): return args[args.index(n) + 1] if n in args else d
names = sorted(os.path.basename(os.path.dirname(f)) for f in glob.glob('/verif/seeded/*/meta.json'))
random.Random(int(opt('--rng', '1'))).shuffle(names)
names = names[:int(opt('--sample', '100000'))]
lost = []
for n in names:
    m = json.load(open(f'/verif/seeded/{n}/meta.json'))
    props = sorted(set(m.get('detected_by', []) + m.get('detected_after_strengthening', [])))
    if not props:
        continue
    if subprocess.run(['git', '-C', '/repo', 'apply', '--check', f'/verif/seeded/{n}/patch.diff'], capture_output=True).returncode != 0:
        print(f'{n}: patch no longer applies (skipped)', flush=True); continue
    caught = None
    for p in props:
        r = subprocess.run(['/verif/tools/try_seed.sh', n, p], capture_output=True, text=True, env=dict(os.environ, SEEDS='1'))
        if 'exit 1' in r.stdout:
            caught = p; break
    print(f'{n}: {"caught by " + caught if caught else "NOT CAUGHT by " + ",".join(props)}', flush=True)
    if not caught: lost.append(n)
print('lost:', lost)
