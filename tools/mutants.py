#!/usr/bin/env python3
"""Sensitivity sweep: single-line mutants of the lexer sources, each run against the quick checks.

Runs on a COPY of the repository (VERIF_REPO), never on /repo:
    vp run --with-repo --timeout 6h -- python3 tools/mutants.py            # $VP_RUN_REPO is the copy
    VERIF_REPO=/tmp/some/copy python3 tools/mutants.py [--max N] [--ops add_line,channel,...] [--props C01,C04]

For every mutant: apply -> build harness (mutants that do not compile are skipped) -> run the
selected checks with a reduced random tier -> record which properties raised a VIOLATION -> revert.
Results: logs/mutants.jsonl and a summary on stdout. Missed mutants are candidates for either an
equivalent mutant or a blind spot of the checks.
"""
import json, os, re, subprocess, sys, time, random

ROOT = os.path.abspath(os.path.join(os.path.dirname(__file__), ".."))
REPO = os.environ.get("VERIF_REPO") or os.environ.get("VP_RUN_REPO")
if not REPO or os.path.realpath(REPO) == "/repo":
    sys.exit("refusing to mutate /repo: set VERIF_REPO to a scratch copy")
os.environ["VERIF_REPO"] = REPO
args = sys.argv[1:]
def opt(name, default=None):
    return args[args.index(name) + 1] if name in args else default
MAX = int(opt("--max", "100000"))
OPS = opt("--ops")
PROPS = (opt("--props") or "C01,C02,C03,C04,C05,C06,C07,C08,C09,C10,C11,C12,C13,C14,C15,C16,C17,C18,C19").split(",")
CASES = opt("--cases", "60000")
SEED = opt("--seed", "1")
SRC = os.path.join(REPO, "crates", "sas-lexer", "src", "lexer")
FILES = ["mod.rs", "buffer.rs", "cursor.rs", "numeric.rs", "hex.rs", "macro.rs", "sas_lang.rs", "text.rs", "lexer_mode.rs"]

def in_verif_cfg(lines, i):
    # skip instrumentation: a line inside a #[cfg(sas_lexer_verif)] block (crude: 12 lines after the attribute)
    for j in range(max(0, i - 14), i + 1):
        if "cfg(sas_lexer_verif)" in lines[j]:
            return True
    return False

def gen():
    muts = []
    for fn in FILES:
        path = os.path.join(SRC, fn)
        if not os.path.exists(path):
            continue
        lines = open(path).read().split("\n")
        in_tests = False
        for i, l in enumerate(lines):
            if re.match(r"\s*mod tests\s*\{", l):
                in_tests = True
            if in_tests or l.strip().startswith("//") or in_verif_cfg(lines, i):
                continue
            s = l.strip()
            def add(op, new):
                muts.append({"file": fn, "line": i + 1, "op": op, "old": l, "new": new})
            if s == "self.add_line();":
                add("add_line", l.replace("self.add_line();", ""))
            if "TokenChannel::HIDDEN" in l and "emit_token" in l:
                add("channel", l.replace("TokenChannel::HIDDEN", "TokenChannel::DEFAULT"))
            if re.fullmatch(r"self\.emit_error\(ErrorKind::\w+\);", s):
                add("emit_error", l.replace(s, ""))
            if s == "self.pop_mode();":
                add("pop_mode", l.replace(s, ""))
            if re.fullmatch(r"self\.push_mode\(LexerMode::\w+\);", s):
                add("push_mode", l.replace(s, ""))
            if s in ("self.set_pending_stat(true);", "self.set_pending_stat(false);"):
                add("pending", l.replace("true", "TMP").replace("false", "true").replace("TMP", "false"))
            if s in ("self.pop_pending_stat();", "self.clear_checkpoint();", "self.start_token();", "self.cursor.advance();"):
                add(s.split(".")[-1].strip("();") if "cursor" not in s else "advance", l.replace(s, ""))
            if fn in ("buffer.rs", "cursor.rs", "numeric.rs", "hex.rs", "macro.rs") or "pnl" in l or "nesting" in l:
                for a, b in ((" < ", " <= "), (" <= ", " < "), (" > ", " >= "), (" >= ", " > "), (" == ", " != "), (" != ", " == "), (" + 1", " + 2"), (" - 1", " - 0")):
                    if a in l and "=>" not in l and "->" not in l and "fn " not in l and "impl" not in l and "<'" not in l and not s.startswith("#") and "debug_assert" not in l:
                        add("relop", l.replace(a, b, 1))
                        break
            if fn in ("mod.rs", "macro.rs", "numeric.rs", "buffer.rs") and "debug_assert" not in l and "cfg" not in l:
                m = re.fullmatch(r"(\s*)(\} else )?if (?!let )(.+) \{", l)
                if m and "=>" not in l:
                    add("negate_if", f"{m.group(1)}{m.group(2) or ''}if !({m.group(3)}) {{")
                if (" && " in l) and "=>" not in l and not s.startswith("//"):
                    add("andor", l.replace(" && ", " || ", 1))
                if " == 0" in l and "=>" not in l:
                    add("eq01", l.replace(" == 0", " == 1", 1))
                for a, b in (("TokenType::MacroString,", "TokenType::MacroStringEmpty,"), ("TokenType::IntegerLiteral", "TokenType::FloatLiteral"), ("TokenType::StringLiteral", "TokenType::StringExprEnd"), ("TokenType::WS", "TokenType::CStyleComment"), ("TokenType::COMMA", "TokenType::SEMI"), ("TokenType::LPAREN", "TokenType::RPAREN"), ("TokenType::ASSIGN", "TokenType::COMMA"), ("Payload::None", "Payload::Integer(0)")):
                    if a in l and "emit_token" in l:
                        add("toktype", l.replace(a, b, 1))
                        break
            if "debug_assert" not in l and "cfg" not in l and not s.startswith("#"):
                # drop the last alternative of an or-pattern in a match arm
                m = re.fullmatch(r"(\s*)((?:[\w:']+(?:\([^)]*\))? \| )+)([\w:']+(?:\([^)]*\))?) (=>|if) (.*)", l)
                if m and m.group(2).count(" | ") >= 1:
                    add("match_alt", f"{m.group(1)}{m.group(2)[:-3]} {m.group(4)} {m.group(5)}")
                # forget a state update: a plain field assignment or compound assignment on self
                if re.fullmatch(r"self\.[a-z_\.]+ (=|\+=|-=) [^;]+;", s) and "let " not in l:
                    add("drop_assign", l.replace(s, ""))
                # a bool argument flipped
                m = re.search(r"\((?:[^()]*, )?(true|false)(?:, [^()]*)?\);", l)
                if m and "fn " not in l and "assert" not in l and "set_pending_stat" not in l:
                    a = m.group(1); b = "false" if a == "true" else "true"
                    add("flip_bool", l[:m.start(1)] + b + l[m.end(1):])
                # the negation dropped from a condition
                m = re.fullmatch(r"(\s*)(\} else )?if !(.+) \{", l)
                if m and " && " not in l and " || " not in l:
                    add("drop_not", f"{m.group(1)}{m.group(2) or ''}if {m.group(3)} {{")
                # an early exit dropped / a loop control swapped
                if s in ("return;", "break;", "continue;"):
                    add("drop_exit", l.replace(s, {"return;": "", "break;": "continue;", "continue;": "break;"}[s]))
                # a small integer constant off by one
                m = re.search(r"(?<![\w.])(2|3|4|8|16|32|64|256)(?![\w.])", l)
                if m and fn in ("mod.rs", "macro.rs", "numeric.rs", "hex.rs", "cursor.rs", "buffer.rs") and "=>" not in l and "with_capacity" not in l and "[" not in l and "const " not in l:
                    add("const_off", l[:m.start(1)] + str(int(m.group(1)) - 1) + l[m.end(1):])
            if re.search(r"'[a-z]' \| '[A-Z]'", l):
                m = re.search(r"'([a-z])' \| '([A-Z])'", l)
                add("case", l.replace(m.group(0), f"'{m.group(1)}'", 1))
    return muts

def sh(cmd, **kw):
    return subprocess.run(cmd, shell=True, capture_output=True, text=True, **kw)

def main():
    muts = gen()
    retry = opt("--retry")
    if retry:
        # re-run the mutants a previous sweep recorded as missed (lines are re-located by content in the current sources)
        muts = []
        for l in open(retry):
            m = json.loads(l)
            if m.get("result") != "missed":
                continue
            lines = open(os.path.join(SRC, m["file"])).read().split("\n")
            cand = [i for i, x in enumerate(lines) if x == m["old"]]
            if not cand:
                continue
            i = min(cand, key=lambda i: abs(i - (m["line"] - 1)))
            muts.append({"file": m["file"], "line": i + 1, "op": m["op"], "old": m["old"], "new": m["new"]})
    if OPS:
        muts = [m for m in muts if m["op"] in OPS.split(",")]
    if not retry:
        random.Random(int(SEED)).shuffle(muts)
    muts = muts[:MAX]
    print(f"{len(muts)} mutants; props {PROPS}", flush=True)
    os.makedirs(os.path.join(ROOT, "logs"), exist_ok=True)
    outp = os.path.join(ROOT, "logs", "mutants.jsonl")
    env = dict(os.environ, CARGO_NET_OFFLINE="true", VERIF_ROOT=ROOT, RUST_BACKTRACE="0")
    sh(f"python3 {ROOT}/tools/gen_shadow.py", env=env)
    verif = os.path.join(ROOT, "harness", "target", "release", "verif")
    summary = {"caught": 0, "missed": 0, "nocompile": 0}
    with open(outp, "a") as out:
        for k, m in enumerate(muts):
            path = os.path.join(SRC, m["file"])
            lines = open(path).read().split("\n")
            if lines[m["line"] - 1] != m["old"]:
                continue
            orig = "\n".join(lines)
            lines[m["line"] - 1] = m["new"]
            open(path, "w").write("\n".join(lines))
            t0 = time.time()
            try:
                b = sh(f"cd {ROOT}/harness && cargo build --release --offline", env=env)
                if b.returncode != 0:
                    m["result"] = "nocompile"; summary["nocompile"] += 1
                else:
                    caught = []
                    for p in PROPS:
                        try:
                            r = sh(f"{verif} check {p} --cases {CASES} --seed {SEED} --evidence /tmp/mut-ev-{os.getpid()}.json", env=env, timeout=400)
                        except subprocess.TimeoutExpired:
                            caught.append(f"{p}:TIMEOUT")
                            continue
                        if p == "C01" and r.returncode not in (0, 1):
                            # the harness died of a runaway allocation: confirm the case the watchdog saved (as ./check does)
                            import glob
                            saved = [f for f in glob.glob(f"{ROOT}/replays/found/C01-hang-*.json") if os.path.getmtime(f) >= t0]
                            if saved and sh(f"{verif} replay {saved[0]} --property C01", env=env).returncode == 3:
                                caught.append("C01:hang")
                                continue
                        if r.returncode == 2 and "hangs on the saved case" in r.stderr:
                            m.setdefault("inconclusive_hang", []).append(p)
                        if "VIOLATION property=" in r.stdout:
                            rule = re.search(r"  rule (\S+)", r.stdout)
                            caught.append(f"{p}:{rule.group(1) if rule else '?'}")
                    m["caught_by"] = caught
                    m["result"] = "caught" if caught else "missed"
                    summary[m["result"]] += 1
            finally:
                open(path, "w").write(orig)
            m["secs"] = round(time.time() - t0, 1)
            out.write(json.dumps(m) + "\n"); out.flush()
            print(f"[{k+1}/{len(muts)}] {m['file']}:{m['line']} {m['op']} -> {m['result']} {m.get('caught_by', '')} ({m['secs']}s)", flush=True)
    print(json.dumps(summary))

if __name__ == "__main__":
    main()
