#!/usr/bin/env python3
"""Writes /verif/MANIFEST.json (kept in a script so that the 20 entries stay consistent)."""
import json, os, subprocess
ROOT = os.path.abspath(os.path.join(os.path.dirname(__file__), ".."))
NOT_BUILT = set(os.environ.get("VERIF_NOT_BUILT", "").split(",")) - {""}

P = {
 "C01": ("universal invariant (no panic in the debug-assertion and optimized builds, hook iteration budget 256+16*len, tokens/errors <= 16+4*len, no 9xxx error) over bounded-exhaustive trigger strings, generated soups/programs/truncations, an 8-64 MiB input and counter-boundary inputs (units repeated 2^7..2^16 times, also on an optimized build with overflow checks); a hang verdict needs a single lexer call stuck for 45 s and again for 60 s in a fresh process; seeded proptest + sweeps, libFuzzer in the thorough tier",
         "generated-input search against the totality invariant", "5/C01"),
 "C02": ("tiling invariant computed from the source text (boundaries, order, single EOF, raw-text concatenation, every accessor Ok) on the optimized, debug and no-macro_sep builds", "generated-input search against an invariant computed from the source", "5/C02"),
 "C03": ("char offsets of tokens and errors compared with code-point counts computed from the source; code-point slicing == byte slicing; multi-byte mutation of generated inputs; both advance_by branches (debug/optimized)", "generated-input search against an independent position table", "5/C03"),
 "C04": ("start/end line and column of every token and error and the line count compared with tables computed from the source; line feeds inserted at every position of generated programs", "generated-input search against an independent position table", "5/C04"),
 "C05": ("differential between the bulk resolved-token vector and the ten per-token accessors of the same buffer", "differential of two views of one result over generated inputs", "5/C05"),
 "C06": ("per-type shape table (DESIGN 4.2) and channel rules evaluated on every token of generated inputs, three builds", "generated-input search against a per-type shape specification", "5/C06"),
 "C07": ("payload ranges partition the literal buffer; payload text equals independently unquoted raw text (doubled quotes, %-quotes, Latin-1 hex decoding; every one- and two-byte hex literal enumerated) and is present iff there is something to unquote", "generated-input search against an independent unquoting oracle", "5/C07"),
 "C08": ("numeric payload equals Rust std's u64 / correctly rounded f64 parse of the token text, type follows notation, malformed literals span exactly; boundary values and exhaustive short spellings", "differential against std number parsing over generated spellings", "5/C08"),
 "C09": ("error offsets on boundaries and ordered, last_token valid and not after the error, missing-expected errors and zero-width recovery tokens coincide per symbol and offset; hook counters measure how many cases rolled back", "generated-input search against an anchoring invariant", "5/C09"),
 "C10": ("bracket automaton over the token types (string expressions, datalines triple, label colon, built-in '(') on every truncation of generated programs and on soups", "generated-input search against a structural automaton", "5/C10"),
 "C11": ("differential against a ~300-line reference lexer for macro-free open code written from the grammar (DESIGN 4.5): (type, channel, offset)* and (error kind, offset)*", "differential against a reference implementation over generated inputs", "5/C11"),
 "C12": ("construct-grammar programs (DESIGN 4.6) must lex without error and end in the initial configuration (hook snapshot) in the debug and optimized builds", "grammar-based generation; generator-knows-the-answer oracle", "5/C12"),
 "C13": ("construct-grammar programs with recorded marks: every real delimiter/operator/integer operand is a token of the stated type and channel, no masked delimiter is a delimiter token, gaps are hidden", "grammar-based generation with recorded delimiter positions", "5/C13"),
 "C14": ("single-delimiter deletions of construct-grammar programs (with and, where the follower cannot continue a name, without a blank in place), truncation before a ')' and cuts inside open parentheses: matching 'missing expected' error and zero-width recovery token at the predicted offset, number of ')' diagnostics bounded by the calls still open", "fault-injecting mutation of grammar-generated programs", "5/C14"),
 "C15": ("metamorphic: lex(A+B) == lex(A) without EOF ++ shift(lex(B)) for closed prefixes A (grammar programs, closed statement lists, arbitrary strings the hook reports closed) and arbitrary B plus three of 34 state-probing continuations per closed A; two feature configurations", "metamorphic relation over generated pairs", "5/C15"),
 "C16": ("metamorphic: ASCII case variants give identical results modulo literal-buffer case; all 2^n spellings of every keyword, mnemonic, suffix, datalines keyword; random masks on generated inputs, every one- and two-byte hex literal", "metamorphic relation; exhaustive masks per keyword", "5/C16"),
 "C17": ("metamorphic: lex(BOM+s) shifted by (3 bytes, 1 char) == lex(s) including lines, columns, payloads, errors", "metamorphic relation over generated inputs", "5/C17"),
 "C18": ("differential between the macro_sep and default feature builds of the same tree linked into one process: equal after removing MacroSep and renumbering; placement rules of MacroSep", "differential of two build configurations over generated inputs", "5/C18"),
 "C19": ("differential: debug-assertion vs optimized build in one process (a failure of exactly one of them is the violation); 16 threads lexing batches concurrently vs single-threaded; re-lexing after other inputs; stable vs nightly toolchain harness digests", "differential across builds, threads, history and toolchains over generated inputs", "5/C19"),
 "C20": ("Hypothesis against the real extension module built from the tree: own msgpack decoder, positional decoding through the shipped dataclass field order, tiling/line/column/enum/payload contract in Python (also for str with unpaired surrogates); the package's public lex_program_from_str run end to end through a msgspec stand-in and compared with the payload; call histories (a same-length neighbour lexed right before; small programs after a payload above 1 MiB); every low code point at the borders of the source; token / error / literal-buffer counts around 2^4, 2^8, 2^16; a differential against a plain Rust program linking the same lexer crate as the binding (py/refdump); enum files compared with regenerated ones and with the linked crate's declarations (names, numbers, message texts)", "Hypothesis property-based testing of the binding + exhaustive enum comparison", "5/C20"),
}
checks = []
na = []
for pid in sorted(P):
    text, tech, ref = P[pid]
    if pid in NOT_BUILT:
        na.append({"property_id": pid, "reason": "check not built yet in this snapshot of /verif (planned: " + tech + ")"})
        continue
    checks.append({
        "property_id": pid,
        "quick_cmd": f"./check {pid} --tier quick",
        "thorough_cmd": f"./check {pid} --tier thorough",
        "evidence_file": f"/verif/evidence/{pid}.json",
        "replay_cmd_template": f"./check {pid} --replay {{path}}",
        "engine": "c20-hypothesis" if pid == "C20" else "sasverif",
        "level_claimed": {"category": "exploration", "text": text + ". No counterexample in the generated cases is the whole claim; absence is not established.", "design_ref": ref},
        "level_note": "trusted: harness adapter (public API only), unicode-ident tables, Rust std parsing/whitespace predicates, the generators' stated preconditions; inputs bounded (<= a few KiB generated, one 8-64 MiB input for C01)",
        "technique": tech,
    })
hook_commit = subprocess.run(["git", "-C", "/repo", "log", "--format=%H", "--grep", "sas_lexer_verif", "-n", "1"], capture_output=True, text=True).stdout.strip()
m = {
 "version": 1,
 "setup_cmd": "./setup.sh",
 "hooks": {
   "guard": "--cfg sas_lexer_verif",
   "enable": "the harness workspace sets build.rustflags = [\"--cfg\", \"sas_lexer_verif\"] in /verif/harness/.cargo/config.toml (fuzz builds pass it through RUSTFLAGS); the repository's own builds never see it",
   "baseline_off_cmd": "cd /repo && cargo test --workspace --no-fail-fast --offline",
   "source_commits": [hook_commit] if hook_commit else [],
   "add_only": True,
 },
 "engines": [
   {"name": "sasverif", "path": "/verif/harness", "serves_properties": [p for p in sorted(P) if p != "C20"], "kind_free_text": "Rust harness linking five configurations (debug-assert with and without macro_sep, optimized with and without macro_sep, optimized with overflow checks) of the working-tree lexer; choice-stream generators driven by seeded proptest runners (16 shards), bounded-exhaustive sweeps, saved replays; libFuzzer targets over the same generators in the thorough tier"},
   {"name": "c20-hypothesis", "path": "/verif/py", "serves_properties": ["C20"], "kind_free_text": "Hypothesis (tooling venv) against the extension module built from a scratch copy of the tree"},
 ],
 "checks": checks,
 "not_applicable": na,
 "notes": "All checks: exit 0 held / 1 VIOLATION line / 2 inconclusive. Known findings: /verif/known_findings.json. Design: /verif/DESIGN.md.",
}
json.dump(m, open(os.path.join(ROOT, "MANIFEST.json"), "w"), indent=1)
print("checks:", len(checks), "not_applicable:", len(na))
