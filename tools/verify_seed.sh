#!/bin/bash
# Confirm a sub-agent's seeded change in its scratch worktree and file it under /verif/seeded/<name>/.
#   tools/verify_seed.sh <worktree> <name> <property> [demo cargo args...]
# Checks: (1) test suite passes with the change, (2) demo fails with it, (3) demo passes without it.
set -u
WT="$1"; NAME="$2"; PROP="$3"; shift 3
DEMOARGS="${*:--p sas-lexer --features macro_sep --test demo}"
OUT="/verif/seeded/$NAME"; mkdir -p "$OUT"
export CARGO_NET_OFFLINE=true CARGO_TARGET_DIR="$WT/target"
unset RUSTFLAGS 2>/dev/null || true
cd "$WT" || exit 2
# the agent's own patch file is the source of truth (worktrees of concurrent agents once swapped changes via git stash)
[ -s _out/patch.diff ] || { echo "no _out/patch.diff"; exit 2; }
cp _out/patch.diff "$OUT/patch.diff"
rm -f crates/sas-lexer/tests/demo.rs
git checkout -- . || exit 2
git apply "$OUT/patch.diff" || { echo "agent patch does not apply to a clean worktree"; exit 2; }
cp _out/README.md "$OUT/README.md" 2>/dev/null
for f in _out/demo.rs _out/demo.py _out/demo_*.rs _out/*.py _out/*.sh; do [ -f "$f" ] && cp "$f" "$OUT/"; done
echo "== 1. test suite with the change"
cargo test --workspace --no-fail-fast --offline 2>&1 | grep -E "^test result: .* [1-9][0-9]* passed|FAILED|panicked|^error" | head -5 > "$OUT/.suite.txt"; cat "$OUT/.suite.txt"
SUITE_OK=$(grep -c "2152 passed; 0 failed" "$OUT/.suite.txt")
cargo test -p sas-lexer --no-fail-fast --offline 2>&1 | grep -E "^test result: .* [1-9][0-9]* passed|FAILED" | head -3 > "$OUT/.suite2.txt"; cat "$OUT/.suite2.txt"
SUITE2_OK=$(grep -c "2127 passed; 0 failed" "$OUT/.suite2.txt")
DEMO_WITH="n/a"; DEMO_WITHOUT="n/a"
if [ -f _out/demo.rs ]; then
  mkdir -p crates/sas-lexer/tests; cp _out/demo.rs crates/sas-lexer/tests/demo.rs
  echo "== 2. demo with the change (must fail)"
  if cargo test $DEMOARGS --offline >"$OUT/.demo_with.txt" 2>&1; then DEMO_WITH="passed"; else DEMO_WITH="failed"; fi
  grep -E "^test result|panicked" "$OUT/.demo_with.txt" | head -3
  echo "== 3. demo without the change (must pass)"
  git apply -R "$OUT/patch.diff" || { echo "cannot revert patch"; exit 2; }
  if cargo test $DEMOARGS --offline >"$OUT/.demo_without.txt" 2>&1; then DEMO_WITHOUT="passed"; else DEMO_WITHOUT="failed"; fi
  grep -E "^test result|panicked" "$OUT/.demo_without.txt" | head -3
  git apply "$OUT/patch.diff"
  rm -f crates/sas-lexer/tests/demo.rs
fi
python3 - "$OUT" "$NAME" "$PROP" "$SUITE_OK" "$SUITE2_OK" "$DEMO_WITH" "$DEMO_WITHOUT" "$DEMOARGS" <<'PY'
import json, sys, os
out, name, prop, s1, s2, dw, dwo, args = sys.argv[1:9]
meta = {"name": name, "breaks_property": prop,
        "confirmed": {"test_suite_workspace_2152_pass_with_change": s1 != "0", "test_suite_no_macro_sep_2127_pass_with_change": s2 != "0", "demo_with_change": dw, "demo_without_change": dwo},
        "commands": ["cargo test --workspace --no-fail-fast --offline", "cargo test -p sas-lexer --no-fail-fast --offline", f"cargo test {args} --offline (demo.rs copied to crates/sas-lexer/tests/demo.rs), with and without patch.diff"],
        "needs_to_manifest": "see README.md", "detected_by": []}
p = os.path.join(out, "meta.json")
if os.path.exists(p):
    old = json.load(open(p)); meta["needs_to_manifest"] = old.get("needs_to_manifest", meta["needs_to_manifest"]); meta["detected_by"] = old.get("detected_by", [])
json.dump(meta, open(p, "w"), indent=1)
print(json.dumps(meta["confirmed"]))
PY
rm -f "$OUT"/.suite*.txt "$OUT"/.demo_*.txt
