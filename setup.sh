#!/bin/bash
# MANIFEST.setup_cmd: build the framework from files on disk only (offline)
set -u
ROOT="$(cd "$(dirname "${BASH_SOURCE[0]}")" && pwd)"
export CARGO_NET_OFFLINE=true
unset RUSTFLAGS CARGO_ENCODED_RUSTFLAGS CARGO_TARGET_DIR 2>/dev/null || true
python3 "$ROOT/tools/gen_shadow.py" >/dev/null || exit 1
( cd "$ROOT/harness" && cargo build --release --offline ) || exit 1
( cd "$ROOT/harness" && cargo +nightly build --release --offline --target-dir "$ROOT/harness/target-nightly" ) || echo "warning: nightly harness build failed (C19 toolchain axis will be inconclusive)" >&2
if [ -x "$ROOT/py/build_ext.sh" ]; then "$ROOT/py/build_ext.sh" || echo "warning: python extension build failed (C20 will be inconclusive)" >&2; fi
exit 0
